"""Process-level world: the manager is started through the real entry-point code
(mgr.runner.ManagerRunner.run with the real load_pin of manager_ledger /
manager_sgx) as a *process* (a set of tasks) that can crash at any seam and be
restarted; only the virtual file system and the device survive.

Platforms: "ledger" (HID link, HSM2Dongle), "sgx" (TCP link, HSM2DongleSGX, enclave
model), "tcp" (TCP link, HSM2DongleTCP, no PIN)."""
import os
import types

from sim import boot
boot.boot()

import ledgerblue.commTCP as _lb_tcp                   # noqa: E402
import ledger.pin as _pin_mod                          # noqa: E402
import ledger.hsm2dongle as _hsm2dongle_mod            # noqa: E402
import ledger.hsm2dongle_tcp as _hsm2dongle_tcp_mod    # noqa: E402
import sgx.hsm2dongle as _sgx_dongle_mod               # noqa: E402
import manager_ledger as _manager_ledger               # noqa: E402
import manager_sgx as _manager_sgx                     # noqa: E402
from mgr.runner import ManagerRunner                   # noqa: E402
from comm.platform import Platform                     # noqa: E402

from sim import world as _world                        # noqa: E402
from sim import serverworld as _sw                     # noqa: E402
from sim import simsignal as _simsignal                # noqa: E402
import signal as _signal                               # noqa: E402
from sim import simfs                                  # noqa: E402
from sim.choices import EventLog                       # noqa: E402
from sim.clock import Clock                            # noqa: E402
from sim.hidlink import HidLink                        # noqa: E402
from sim.tcplink import TcpLink, SocketShim, set_tcplink   # noqa: E402
from sim.kernel import Kernel, set_kernel, SimCrash, StepCap   # noqa: F401,E402
from sim.simnet import SimNet, set_net                 # noqa: E402
from sim.devices.ledger import LedgerDevice            # noqa: E402
from sim.devices.sgx import SgxDevice                  # noqa: E402

PIN_PATH = "/simfs/pin.txt"

_installed = False
_PINRANDOM = None


class _PinRandomDispatch:
    def seed(self, *a):
        _PINRANDOM.seed()

    def choice(self, seq):
        return _PINRANDOM.choice(seq)


class PinRandom:
    """Entropy seam of ledger.pin: `digits_first` candidates are all-digit (the
    generator must reject and retry), afterwards characters come from the run's choices."""

    def __init__(self, ch, seam, digits_first=0):
        self.ch = ch
        self.seam = seam
        self.left = digits_first * 8
        self.calls = 0
        self.seeded = 0

    def seed(self):
        self.seeded += 1

    def choice(self, seq):
        self.seam("entropy")
        self.calls += 1
        if self.calls > 50000:
            raise RuntimeError("SIM-HANG: PIN generator drew %d characters without producing "
                               "a valid PIN" % self.calls)
        if self.left > 0:
            self.left -= 1
            digits = [c for c in seq if c.isdigit()]
            return digits[self.ch.draw(len(digits), "pin.digit")]
        return seq[self.ch.draw(len(seq), "pin.char")]


def install():
    global _installed
    if _installed:
        return
    _installed = True
    _world.install_seams()
    _simsignal.install()
    _sw.install_server_seams()
    simfs.install()
    _lb_tcp.socket = SocketShim
    _pin_mod.random = _PinRandomDispatch()


class ProcWorld:
    def __init__(self, ch, platform="ledger", device_cfg=None, step_cap=30000, seed=b"seed",
                 pin_digits_first=0):
        global _PINRANDOM
        install()
        import socket as _socket
        _socket.setdefaulttimeout(None)      # process-wide state a previous run may have left behind
        self.ch = ch
        self.platform = platform
        self.log = EventLog()
        self.clock = Clock(log=self.log)
        self.kernel = Kernel(ch, self.clock, self.log, step_cap=step_cap)
        self.net = SimNet(self.kernel, ch, self.log)
        self.seam_count = 0
        self.seam_labels = []
        self.crash_at = None             # seam index at which the current process crashes
        self.crashed = []                # (proc, seam index, label)
        self.signal_at = None            # (seam index, signal number): delivered to the main thread there
        self.signals = []                # (proc, seam index, label, signal number, what happened)
        self.sig_handlers = {}           # proc -> {signal number: handler} (sim/simsignal.py)
        self.interrupt_at = None         # seam index at (or after) which the process's main thread gets
        self.interrupted = []            # a KeyboardInterrupt (operator's Ctrl-C / SIGINT), once
        self.cur_proc = None
        dev_cls = SgxDevice if platform == "sgx" else LedgerDevice
        self.device = dev_cls(ch, self.clock, self.log, seed=seed, cfg=device_cfg)
        if platform == "ledger":
            self.link = HidLink(self.device, self.clock, self.log)
        else:
            self.link = TcpLink(self.device, self.clock, self.log)
        self.link.crash_check = lambda: self.seam("link")
        self.link.xchg_yield = self.kernel.yield_point
        self.link.wait = self.kernel.sleep
        self.fs = simfs.FS(self.log, seam=self.seam)
        self.crash_check = lambda: self.seam("time")
        self.sleep_hook = self.kernel.sleep
        self.pinrandom = PinRandom(ch, self.seam, pin_digits_first)
        _PINRANDOM = self.pinrandom
        self.procs = []
        self.outcomes = {}
        self.on_seam = None              # hook(world, label) evaluated at every seam (invariants)
        self.activate()

    def activate(self):
        global _PINRANDOM
        _world._CURRENT = self
        set_kernel(self.kernel)
        set_net(self.net)
        simfs.set_fs(self.fs)
        if self.platform != "ledger":
            set_tcplink(self.link)
        _PINRANDOM = self.pinrandom

    # ---- seams, crash fence
    def seam(self, label=""):
        k = self.kernel
        cur = k.current
        proc = cur.proc if cur is not None else None
        if proc is not None and proc in k.fenced:
            raise SimCrash()
        if proc is None or proc != self.cur_proc:
            return
        i = self.seam_count
        self.seam_count += 1
        if self.on_seam is not None:
            self.on_seam(self, label)
        if self.interrupt_at is not None and i >= self.interrupt_at and cur.name == proc:
            # SIGINT: Python raises KeyboardInterrupt in the main thread between two bytecodes; handlers
            # and finally blocks run, the process goes on living until it decides to end
            self.interrupt_at = None
            self.interrupted.append((proc, i, label))
            self.log.ev("interrupt", proc, i, label)
            raise KeyboardInterrupt()
        if self.signal_at is not None and i >= self.signal_at[0] and cur.name == proc:
            signum = self.signal_at[1]
            self.signal_at = None
            h = self.sig_handlers.get(proc, {}).get(int(signum), _signal.SIG_DFL)
            if callable(h):
                what = "handler"
            elif h == _signal.SIG_IGN or (h == _signal.SIG_DFL and signum in _simsignal.IGNORE):
                what = "ignored"
            elif signum == _signal.SIGINT:
                what = "KeyboardInterrupt"
            else:
                what = "terminated"
            self.signals.append((proc, i, label, int(signum), what))
            if getattr(self, "on_signal", None):
                self.on_signal(proc, int(signum), what)
            self.log.ev("signal", proc, i, label, int(signum), what)
            if what == "handler":
                h(int(signum), None)         # in the main thread, on top of what it was doing
            elif what == "KeyboardInterrupt":
                raise KeyboardInterrupt()
            elif what == "terminated":
                k.fence(proc)
                raise SimCrash()
        if self.crash_at is not None and i == self.crash_at:
            self.crashed.append((proc, i, label))
            self.log.ev("crash", proc, i, label)
            k.fence(proc)
            raise SimCrash()

    # ---- manager process
    def start_manager(self, force_change=False, default_pin=b"1234567a", v1=False, name=None):
        self.activate()
        proc = name or "mgr%d" % len(self.procs)
        self.procs.append(proc)
        self.cur_proc = proc
        opts = types.SimpleNamespace(
            logconfigfilepath="/nonexistent/logging.cfg", pin_file=PIN_PATH,
            force_pin_change=force_change, io_debug=False, version_one=v1, host="localhost",
            port=9999, tcpconn_host="sgx-host", tcpconn_port=7777)
        platform = self.platform
        world = self

        def body():
            old_env = os.environ.get("PIN")
            try:
                if default_pin is None:
                    os.environ.pop("PIN", None)
                else:
                    os.environ["PIN"] = default_pin.decode("latin-1")
                if platform == "ledger":
                    Platform.set(Platform.LEDGER)
                    runner = ManagerRunner("powHSM manager",
                                           lambda o: _hsm2dongle_mod.HSM2Dongle(o.io_debug),
                                           _manager_ledger.load_pin)
                elif platform == "sgx":
                    Platform.set(Platform.SGX)
                    runner = ManagerRunner(
                        "powHSM manager for SGX",
                        lambda o: _sgx_dongle_mod.HSM2DongleSGX(o.tcpconn_host, o.tcpconn_port,
                                                                o.io_debug),
                        _manager_sgx.load_pin)
                else:
                    Platform.set(Platform.X86)
                    runner = ManagerRunner(
                        "powHSM manager for TCPSigner",
                        lambda o: _hsm2dongle_tcp_mod.HSM2DongleTCP(o.tcpconn_host, o.tcpconn_port,
                                                                    o.io_debug),
                        load_pin=lambda o: None)
                runner.run(opts)
                world.outcomes[proc] = "returned"
            except SimCrash:
                world.outcomes[proc] = "crashed"
                raise
            except BaseException as e:
                world.outcomes[proc] = "raised %s: %s" % (type(e).__name__, str(e)[:120])
            finally:
                if old_env is None:
                    os.environ.pop("PIN", None)
                else:
                    os.environ["PIN"] = old_env
        return self.kernel.spawn(body, proc, proc=proc)

    def manager_alive(self, proc=None):
        return self.kernel.proc_alive(proc or self.cur_proc)

    def serving(self):
        return self.net.listener is not None and self.net.listener.listening

    def finish(self):
        return self.kernel.shutdown()
