"""Baton-passing scheduler: every task is a real thread that runs only while it
holds the baton; the scheduler (main thread) picks the next runnable task from
the run's Choices at every yield point, owns virtual time and jumps the clock to
the earliest timer when nothing is runnable.  One seed = one interleaving.

Yield points are the seams: simulated socket operations, device exchanges,
sleeps, Thread.start/join, Event.wait, Lock.acquire, selector.select.
"""
import threading as _real_threading

_RealThread = _real_threading.Thread
_RealSemaphore = _real_threading.Semaphore
_TL = _real_threading.local()
STRAYS = []


def check_foreign():
    """Seams call this first: a thread left over from an earlier run (its kernel is no longer
    the active one) must not touch the current world - it is unwound instead."""
    k = getattr(_TL, "kernel", None)
    if k is not None and (k is not _KERNEL or k.dead):
        raise SimCrash()
    if k is None and _KERNEL is not None and not _KERNEL.dead and \
            _real_threading.current_thread() is not _real_threading.main_thread():
        # a thread the scheduler does not own reached a seam: its interleaving is not ours to
        # decide, so the run cannot be trusted (reported as a harness failure, never as a pass)
        STRAYS.append(_real_threading.current_thread().name)
        raise RuntimeError("SIM-UNSUPPORTED: uncontrolled thread reached a seam")


class SimCrash(BaseException):
    """Unwinds a task whose process is fenced / whose run is over."""


class SimDeadlock(Exception):
    pass


class StepCap(Exception):
    pass


class Task:
    def __init__(self, kernel, fn, name, daemon, proc=None):
        self.proc = proc
        self.kernel = kernel
        self.fn = fn
        self.name = name
        self.daemon = daemon
        self.go = None
        self.done = False
        self.started = False
        self.exc = None
        self.result = None
        self.wait_pred = None
        self.deadline = None
        self.timed_out = False
        self.thread = None
        self.steps = 0
        self.last_line = None      # tagging for C12

    def ready(self, now):
        if self.done:
            return False
        if self.wait_pred is None:
            return self.deadline is None or now >= self.deadline
        if self.wait_pred():
            return True
        return self.deadline is not None and now >= self.deadline

    def _body(self):
        k = self.kernel
        _TL.kernel = k
        self.go.acquire()
        try:
            if k.dead:
                raise SimCrash()
            self.result = self.fn()
        except SimCrash:
            pass
        except BaseException as e:       # recorded; the scheduler decides what it means
            self.exc = e
        finally:
            self.done = True
            k.back.release()


class Kernel:
    def __init__(self, ch, clock, log, step_cap=20000):
        self.ch = ch
        self.clock = clock
        self.log = log
        self.tasks = []
        self.current = None
        self.back = _RealSemaphore(0)
        self.dead = False
        self.steps = 0
        self.step_cap = step_cap
        self.sched_trace = []
        self.idle_jumps = 0
        self.fenced = set()

    # ---- task API (called from tasks)
    def spawn(self, fn, name, daemon=False, proc=None):
        if proc is None and self.current is not None:
            proc = self.current.proc          # threads belong to their creator's process
        t = Task(self, fn, name, daemon, proc)
        if self.current is not None:
            t.last_line = self.current.last_line      # causal tag: work done on behalf of the creator
        _TL.internal = getattr(_TL, "internal", 0) + 1     # the scheduler's own threads are real
        try:
            t.go = _RealSemaphore(0)
            t.thread = _RealThread(target=t._body, name="sim-" + name, daemon=True)
            t.started = True
            self.tasks.append(t)
            t.thread.start()
        finally:
            _TL.internal -= 1
        self.log.ev("spawn", name)
        return t

    def _mine(self):
        """The task of the calling thread, None for the scheduler's own (main) thread."""
        k = getattr(_TL, "kernel", None)
        if k is None:
            return None
        if k is not self or self.dead:
            raise SimCrash()
        me = self.current
        if me is None or me.thread is not _real_threading.current_thread():
            raise SimCrash()           # not the baton holder: a stray thread
        return me

    def _park(self):
        me = self.current
        if me.proc is not None and me.proc in self.fenced:
            raise SimCrash()
        self.back.release()
        me.go.acquire()
        if self.dead or (me.proc is not None and me.proc in self.fenced):
            raise SimCrash()

    def fence(self, proc):
        """Crash of a process: from now on every seam call of its tasks has no effect
        and raises SimCrash; parked tasks are woken so that they unwind."""
        self.fenced.add(proc)
        for t in self.tasks:
            if t.proc == proc and not t.done:
                t.wait_pred = lambda: True

    def proc_alive(self, proc):
        return any(t.proc == proc and not t.done for t in self.tasks)

    def yield_point(self, label=""):
        """A plain pre-emption point."""
        me = self._mine()
        if me is None:
            return
        if self.dead:
            raise SimCrash()
        me.wait_pred = None
        me.deadline = None
        self._park()

    def block(self, pred, timeout=None, label=""):
        """Wait until pred() holds or `timeout` virtual seconds passed.
        Returns True if pred holds."""
        me = self._mine()
        if me is None:
            # not under the scheduler (single-task world)
            if not pred() and timeout is not None:
                self.clock.advance(timeout)
            return pred()
        if self.dead:
            raise SimCrash()
        me.wait_pred = pred
        me.deadline = None if timeout is None else self.clock.now + timeout
        self._park()
        me.wait_pred = None
        me.deadline = None
        return pred()

    def sleep(self, d):
        me = self._mine()
        if me is None:
            self.clock.advance(d)
            return
        if self.dead:
            raise SimCrash()
        me.wait_pred = None
        me.deadline = self.clock.now + max(0.0, d)
        self._park()
        me.deadline = None

    # ---- scheduler (main thread)
    def run(self, until=None, max_time=None):
        """Run until `until()` is true, every task is done, or nothing can run."""
        while True:
            if until is not None and until():
                return "until"
            now = self.clock.now
            runnable = [t for t in self.tasks if not t.done and t.ready(now)]
            if not runnable:
                pend = [t for t in self.tasks if not t.done]
                if not pend:
                    return "all-done"
                timers = [t.deadline for t in pend if t.deadline is not None]
                if not timers:
                    return "deadlock"
                nxt = min(timers)
                if max_time is not None and nxt - self.clock.start > max_time:
                    return "time-limit"
                self.clock.now = max(self.clock.now, nxt)
                self.idle_jumps += 1
                continue
            if self.steps >= self.step_cap:
                raise StepCap("step cap %d reached" % self.step_cap)
            i = self.ch.draw(len(runnable), "sched") if len(runnable) > 1 else 0
            t = runnable[i]
            if len(runnable) > 1:
                self.sched_trace.append(t.name)
            self.steps += 1
            t.steps += 1
            self.current = t
            t.go.release()
            self.back.acquire()
            self.current = None

    def shutdown(self):
        """End of run: unwind every parked task."""
        self.dead = True
        for t in self.tasks:
            if not t.done:
                t.go.release()
        for t in self.tasks:
            if t.thread is not None:
                t.thread.join(timeout=60.0)
        leaked = [t.name for t in self.tasks if t.thread is not None and t.thread.is_alive()]
        if STRAYS:
            names = ", ".join(STRAYS)
            del STRAYS[:]
            raise RuntimeError("SIM-UNSUPPORTED: threads outside the scheduler reached a seam: " + names)
        return leaked


# ---------------------------------------------------------------------- threading shim

_KERNEL = None


def set_kernel(k):
    global _KERNEL
    _KERNEL = k


class SimThread:
    _count = 0

    def __init__(self, group=None, target=None, name=None, args=(), kwargs=None, daemon=None):
        SimThread._count += 1
        self._target = target
        self._args = args
        self._kwargs = kwargs or {}
        self.name = name or "thread"
        self.daemon = bool(daemon)
        self._task = None

    def start(self):
        k = _KERNEL
        idx = sum(1 for t in k.tasks if t.name.startswith(self.name))
        self._task = k.spawn(self.run, "%s#%d" % (self.name, idx), self.daemon)
        k.yield_point("thread.start")

    def run(self):
        if self._target:
            self._target(*self._args, **self._kwargs)

    def join(self, timeout=None):
        if self._task is None:
            raise RuntimeError("cannot join thread before it is started")
        _KERNEL.block(lambda: self._task.done, timeout, "thread.join")

    def is_alive(self):
        return self._task is not None and not self._task.done

    def setDaemon(self, v):
        self.daemon = v


class SimEvent:
    def __init__(self):
        self._flag = False

    def is_set(self):
        return self._flag

    isSet = is_set

    def set(self):
        self._flag = True

    def clear(self):
        self._flag = False

    def wait(self, timeout=None):
        if self._flag:
            return True
        return _KERNEL.block(lambda: self._flag, timeout, "event.wait")


class SimLock:
    def __init__(self):
        self._owner = None
        self._count = 0

    def acquire(self, blocking=True, timeout=-1):
        k = _KERNEL
        me = k.current
        if self._owner is None:
            self._owner = me
            self._count = 1
            return True
        if not blocking:
            return False
        ok = k.block(lambda: self._owner is None, None if timeout in (-1, None) else timeout,
                     "lock.acquire")
        if ok:
            self._owner = me
            self._count = 1
        return ok

    def release(self):
        self._owner = None
        self._count = 0

    def locked(self):
        return self._owner is not None

    def __enter__(self):
        self.acquire()
        return self

    def __exit__(self, *a):
        self.release()


class SimRLock(SimLock):
    def acquire(self, blocking=True, timeout=-1):
        me = _KERNEL.current
        if self._owner is me and me is not None:
            self._count += 1
            return True
        return super().acquire(blocking, timeout)

    def release(self):
        self._count -= 1
        if self._count <= 0:
            self._owner = None
            self._count = 0


class SimCondition:
    def __init__(self, lock=None):
        self._lock = lock if lock is not None else SimRLock()
        self.acquire = self._lock.acquire
        self.release = self._lock.release
        self._waiters = []

    def __enter__(self):
        return self._lock.__enter__()

    def __exit__(self, *a):
        return self._lock.__exit__(*a)

    def wait(self, timeout=None):
        lk = self._lock
        if lk._owner is None:
            raise RuntimeError("cannot wait on un-acquired lock")
        token = [False]
        self._waiters.append(token)
        saved = (lk._owner, lk._count)
        lk._owner, lk._count = None, 0
        try:
            _KERNEL.block(lambda: token[0], timeout, "condition.wait")
        finally:
            if not token[0] and token in self._waiters:
                self._waiters.remove(token)
            if lk._owner is not None:
                _KERNEL.block(lambda: lk._owner is None, None, "condition.reacquire")
            lk._owner, lk._count = saved
        return token[0]

    def wait_for(self, predicate, timeout=None):
        end = None if timeout is None else _KERNEL.clock.now + timeout
        result = predicate()
        while not result:
            if end is not None:
                left = end - _KERNEL.clock.now
                if left <= 0:
                    break
                self.wait(left)
            else:
                self.wait(None)
            result = predicate()
        return result

    def notify(self, n=1):
        for token in self._waiters[:n]:
            token[0] = True
        del self._waiters[:n]

    def notify_all(self):
        self.notify(len(self._waiters))

    notifyAll = notify_all


class SimSemaphore:
    def __init__(self, value=1):
        if value < 0:
            raise ValueError("semaphore initial value must be >= 0")
        self._value = value

    def acquire(self, blocking=True, timeout=None):
        if not blocking and timeout is not None:
            raise ValueError("can't specify timeout for non-blocking acquire")
        if self._value > 0:
            self._value -= 1
            return True
        if not blocking or timeout == 0:
            return False
        ok = _KERNEL.block(lambda: self._value > 0, timeout, "semaphore.acquire")
        if ok:
            self._value -= 1
        return ok

    __enter__ = acquire

    def release(self, n=1):
        self._value += n

    def __exit__(self, *a):
        self.release()


class SimBoundedSemaphore(SimSemaphore):
    def __init__(self, value=1):
        super().__init__(value)
        self._initial = value

    def release(self, n=1):
        if self._value + n > self._initial:
            raise ValueError("Semaphore released too many times")
        self._value += n


class SimQueue:
    """queue.SimpleQueue / queue.Queue under the scheduler.  An item carries the request tag of
    the task that put it: whoever takes it works on behalf of that request (C12 tagging)."""

    def __init__(self, maxsize=0):
        import collections
        self._q = collections.deque()
        self.maxsize = maxsize
        self._unfinished = 0

    def put(self, item, block=True, timeout=None):
        import queue as _q
        if self.maxsize > 0 and len(self._q) >= self.maxsize:
            if not block or not _KERNEL.block(lambda: len(self._q) < self.maxsize, timeout, "queue.put"):
                raise _q.Full
        me = _KERNEL.current if _KERNEL is not None else None
        self._q.append((item, me.last_line if me is not None else None))
        self._unfinished += 1

    def get(self, block=True, timeout=None):
        import queue as _q
        if not self._q:
            if not block or not _KERNEL.block(lambda: len(self._q) > 0, timeout, "queue.get"):
                raise _q.Empty
        item, tag = self._q.popleft()
        me = _KERNEL.current if _KERNEL is not None else None
        if me is not None and tag is not None:
            me.last_line = tag
        return item

    def put_nowait(self, item):
        return self.put(item, block=False)

    def get_nowait(self):
        return self.get(block=False)

    def empty(self):
        return not self._q

    def full(self):
        return 0 < self.maxsize <= len(self._q)

    def qsize(self):
        return len(self._q)

    def task_done(self):
        self._unfinished -= 1

    def join(self):
        _KERNEL.block(lambda: self._unfinished <= 0, None, "queue.join")


class SimTimer(SimThread):
    def __init__(self, interval, function, args=None, kwargs=None):
        super().__init__(name="timer")
        self._cancelled = False

        def body():
            _KERNEL.sleep(interval)
            if not self._cancelled:
                function(*(args or ()), **(kwargs or {}))
        self._target = body

    def cancel(self):
        self._cancelled = True


class ThreadingShim:
    """What `socketserver.threading` / `comm.server.threading` see."""
    Thread = SimThread
    Event = SimEvent
    Lock = SimLock
    RLock = SimRLock
    Condition = SimCondition
    Semaphore = SimSemaphore
    BoundedSemaphore = SimBoundedSemaphore
    Timer = SimTimer

    @staticmethod
    def current_thread():
        t = _KERNEL.current if _KERNEL else None

        class _T:
            name = t.name if t else "main"
            daemon = t.daemon if t else False
        return _T()

    @staticmethod
    def get_ident():
        t = _KERNEL.current if _KERNEL else None
        return id(t)
