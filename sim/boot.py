"""Process bootstrap shared by every check: hash-seed pinning, import path of
the middleware under test (always /repo's working tree, never a copy), the
bitcoin.core stand-in and silencing of the repo's logging."""
import os
import sys

VERIF_DIR = os.path.dirname(os.path.dirname(os.path.abspath(__file__)))
REPO = os.environ.get("VERIF_REPO", "/repo")
MIDDLEWARE = os.path.join(REPO, "middleware")


def ensure_hashseed(value="0"):
    """Re-exec the interpreter so that set/dict iteration order of str keys is
    the same in every run (one forgotten source of nondeterminism breaks replay)."""
    if os.environ.get("PYTHONHASHSEED") != value and \
            os.environ.get("VERIF_NO_REEXEC") != "1":
        env = dict(os.environ)
        env["PYTHONHASHSEED"] = value
        env["PYTHONDONTWRITEBYTECODE"] = "1"
        mod = getattr(sys.modules.get("__main__"), "__spec__", None)
        if mod is not None and mod.name:
            args = [sys.executable, "-m", mod.name] + sys.argv[1:]
        else:
            args = [sys.executable] + sys.argv
        os.execve(sys.executable, args, env)


_booted = False


def boot():
    global _booted
    if _booted:
        return
    _booted = True
    sys.dont_write_bytecode = True
    if VERIF_DIR not in sys.path:
        sys.path.insert(0, VERIF_DIR)
    if MIDDLEWARE not in sys.path:
        sys.path.insert(0, MIDDLEWARE)
    from sim.stubs import bitcoin_core
    bitcoin_core.install()
    import logging
    logging.disable(logging.CRITICAL)
    # The repo never touches the network in our scenarios; make an accidental
    # call a loud, recorded event rather than real I/O.
    try:
        import requests

        def _no_net(*a, **k):
            raise RuntimeError("SIM: network access attempted: %r" % (a,))
        requests.get = _no_net
        requests.post = _no_net
    except Exception:
        pass
