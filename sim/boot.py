"""Process bootstrap shared by every check: hash-seed pinning, import path of
the middleware under test (always /repo's working tree, never a copy), the
bitcoin.core stand-in and silencing of the repo's logging."""
import os
import sys

VERIF_DIR = os.path.dirname(os.path.dirname(os.path.abspath(__file__)))
REPO = os.environ.get("VERIF_REPO", "/repo")
MIDDLEWARE = os.path.join(REPO, "middleware")


def ensure_hashseed(value="0"):
    """Re-exec the interpreter so that set/dict iteration order of str keys is
    the same in every run (one forgotten source of nondeterminism breaks replay)."""
    if os.environ.get("PYTHONHASHSEED") != value and \
            os.environ.get("VERIF_NO_REEXEC") != "1":
        env = dict(os.environ)
        env["PYTHONHASHSEED"] = value
        env["PYTHONDONTWRITEBYTECODE"] = "1"
        mod = getattr(sys.modules.get("__main__"), "__spec__", None)
        if mod is not None and mod.name:
            args = [sys.executable, "-m", mod.name] + sys.argv[1:]
        else:
            args = [sys.executable] + sys.argv
        os.execve(sys.executable, args, env)


_booted = False
IN_RUN = [0]          # > 0 while a check's run_one is executing (set by sim.batch)


def _install_time_fallback():
    """Last line of defence for the clock seam: the modules of the code under test that use `time`
    today have their own module-level seam (ledger.protocol.time, admin.misc.time,
    ledgerblue.comm.time); a change that starts using `time` somewhere else would otherwise sleep
    for real and read the real clock inside a simulated run.  While a run executes, calls made by
    the run's own threads (main thread or scheduler tasks) go to the simulated clock."""
    import threading
    import time as _time
    real = {"sleep": _time.sleep, "time": _time.time, "monotonic": _time.monotonic}

    def _world():
        if not IN_RUN[0]:
            return None
        wmod = sys.modules.get("sim.world")
        w = getattr(wmod, "_CURRENT", None) if wmod else None
        if w is None:
            return None
        kmod = sys.modules.get("sim.kernel")
        if threading.current_thread() is threading.main_thread():
            return w
        if kmod is not None and getattr(kmod._TL, "kernel", None) is not None and \
                not getattr(kmod._TL, "internal", 0):
            return w
        return None

    def sleep(d):
        w = _world()
        if w is None:
            return real["sleep"](d)
        hook = getattr(w, "sleep_hook", None)
        cc = getattr(w, "crash_check", None)
        if cc:
            cc()
        if hook is not None:
            return hook(d)
        return w.clock.sleep(d)

    def now():
        w = _world()
        return real["time"]() if w is None else w.clock.time()

    def monotonic():
        w = _world()
        return real["monotonic"]() if w is None else w.clock.monotonic()
    _time.sleep, _time.time, _time.monotonic = sleep, now, monotonic


def boot():
    global _booted
    if _booted:
        return
    _booted = True
    sys.dont_write_bytecode = True
    if VERIF_DIR not in sys.path:
        sys.path.insert(0, VERIF_DIR)
    if MIDDLEWARE not in sys.path:
        sys.path.insert(0, MIDDLEWARE)
    from sim.stubs import bitcoin_core
    bitcoin_core.install()
    _install_time_fallback()
    import logging
    logging.disable(logging.CRITICAL)
    # The repo never touches the network in our scenarios; make an accidental
    # call a loud, recorded event rather than real I/O.
    try:
        import requests

        def _no_net(*a, **k):
            raise RuntimeError("SIM: network access attempted: %r" % (a,))
        requests.get = _no_net
        requests.post = _no_net
    except Exception:
        pass


class _NullStream:
    def write(self, s):
        return len(s)

    def flush(self):
        pass


_LOG_HANDLER = None


def logging_as_deployed(on):
    """The manager's default logging configuration (comm/logging.py: one StreamHandler at DEBUG, root
    level NOTSET) with the output discarded: every record is still formatted, by the very handler class
    whose `emit` lets a RecursionError through.  Off (the default in simulation): logging disabled."""
    global _LOG_HANDLER
    import logging
    root = logging.getLogger()
    if _LOG_HANDLER is not None:
        root.removeHandler(_LOG_HANDLER)
        _LOG_HANDLER = None
    if on:
        h = logging.StreamHandler(_NullStream())
        h.setLevel(logging.DEBUG)
        h.setFormatter(logging.Formatter("[%(levelname)s:%(name)s] %(message)s"))
        root.addHandler(h)
        root.setLevel(logging.NOTSET)
        _LOG_HANDLER = h
        logging.disable(logging.NOTSET)
    else:
        logging.disable(logging.CRITICAL)
