"""Process-wide threading seam.

The code under test may start threads and block on synchronisation objects by
routes other than the module attributes replaced in serverworld (a
ThreadPoolExecutor, a queue.Queue worker, `from threading import Thread`, a
Thread subclass).  `install()` makes the standard library's own entry points
dispatch on the *calling thread*: a thread that is a task of the active
scheduler gets scheduler-owned objects (its new threads become tasks, its
blocking calls become scheduler waits with virtual time-outs); every other
thread (the harness: main thread, process pools) gets the real thing.

Nothing is changed for code that does not run inside a scheduler task.
"""
import queue as _queue_mod
import re
import threading as _threading
import time as _time_mod

from sim import kernel as _k

_TL = _k._TL
_installed = False

_orig = {}


def under_sim():
    k = getattr(_TL, "kernel", None)
    return k is not None and not getattr(_TL, "internal", 0)


def _kernel_or_crash():
    k = _TL.kernel
    if k is not _k._KERNEL or k.dead:
        raise _k.SimCrash()
    return k


def _norm(name):
    return re.sub(r"[^A-Za-z_]+", "", name or "thread") or "thread"


def _dispatch_class(real, sim):
    """A subclass of the real class whose constructor hands out the scheduler's
    object to scheduler tasks (subclasses of it stay real)."""
    class D(real):
        def __new__(cls, *a, **kw):
            if cls is D and under_sim():
                return sim(*a, **kw)
            return real.__new__(cls)
    D.__name__ = real.__name__
    D.__qualname__ = real.__qualname__
    return D


class HybridLock:
    """Module-level locks of the standard library that exist before any run: real for the
    harness, scheduler-owned for tasks (a real lock held across a yield would hang the run)."""

    def __init__(self, real):
        self._real = real
        self._sim = _k.SimLock()

    def _which(self):
        return self._sim if under_sim() else self._real

    def acquire(self, *a, **kw):
        return self._which().acquire(*a, **kw)

    def release(self):
        return self._which().release()

    def locked(self):
        return self._which().locked()

    def __enter__(self):
        return self._which().__enter__()

    def __exit__(self, *a):
        return self._which().__exit__(*a)

    def _at_fork_reinit(self):
        self._real._at_fork_reinit()


class _TimeFn:
    def __init__(self, real):
        self.real = real

    def __call__(self):
        if under_sim():
            return _k._KERNEL.clock.monotonic()
        return self.real()


def install():
    global _installed
    if _installed:
        return
    _installed = True
    T = _threading.Thread
    _orig["start"], _orig["join"], _orig["is_alive"] = T.start, T.join, T.is_alive

    def start(self):
        if not under_sim():
            return _orig["start"](self)
        k = _kernel_or_crash()
        if getattr(self, "_sim_task", None) is not None:
            raise RuntimeError("threads can only be started once")
        name = _norm(self.name)
        idx = sum(1 for t in k.tasks if t.name.startswith(name + "#"))
        self._sim_task = k.spawn(self.run, "%s#%d" % (name, idx), bool(self.daemon))
        try:
            self._started.set()
        except Exception:
            pass
        k.yield_point("thread.start")

    def join(self, timeout=None):
        task = getattr(self, "_sim_task", None)
        if task is None:
            if under_sim():
                raise RuntimeError("SIM-UNSUPPORTED: join of a thread the scheduler does not own")
            return _orig["join"](self, timeout)
        if not under_sim():
            return None
        _kernel_or_crash().block(lambda: task.done, timeout, "thread.join")

    def is_alive(self):
        task = getattr(self, "_sim_task", None)
        if task is None:
            return _orig["is_alive"](self)
        return not task.done

    T.start, T.join, T.is_alive = start, join, is_alive

    real_lock, real_rlock = _threading.Lock, _threading.RLock

    def Lock():
        return _k.SimLock() if under_sim() else real_lock()

    def RLock():
        return _k.SimRLock() if under_sim() else real_rlock()

    _threading.Lock = Lock
    _threading.RLock = RLock
    _threading.Event = _dispatch_class(_threading.Event, _k.SimEvent)
    _threading.Condition = _dispatch_class(_threading.Condition, _k.SimCondition)
    _threading.Semaphore = _dispatch_class(_threading.Semaphore, _k.SimSemaphore)
    _threading.BoundedSemaphore = _dispatch_class(_threading.BoundedSemaphore, _k.SimBoundedSemaphore)
    _threading.Timer = _dispatch_class(_threading.Timer, _k.SimTimer)

    _queue_mod.SimpleQueue = _simple_queue_dispatch()
    _queue_mod.time = _TimeFn(_queue_mod.time)

    import concurrent.futures._base as _cf_base
    import concurrent.futures.thread as _cf_thread

    class _TimeShim:
        def __getattr__(self, name):
            return getattr(_time_mod, name)

        monotonic = staticmethod(_TimeFn(_time_mod.monotonic))
    _cf_base.time = _TimeShim()
    _cf_thread._global_shutdown_lock = HybridLock(_cf_thread._global_shutdown_lock)


def _simple_queue_dispatch():
    real = _queue_mod.SimpleQueue

    class SimpleQueue:
        def __new__(cls, *a, **kw):
            if under_sim():
                return _k.SimQueue()
            return real(*a, **kw)
    return SimpleQueue
