"""Simulated TCP link under the real ledgerblue.commTCP.DongleServer (SGX and
TCPSigner transports): a fake `socket` module; the real length-prefixed framing
and 0x61xx handling keep running.

Fault kinds per exchange (fault_fn(index, apdu)): "send_err" (BrokenPipeError),
"recv_eof" (peer closed: recv returns b""), ("sw", w), plus connect refusal
through `refuse` (next N connects fail)."""
import socket as _real_socket
import struct

from sim.kernel import check_foreign as _check_foreign

_LINK = None


def set_tcplink(link):
    global _LINK
    _LINK = link


class TcpLink:
    def __init__(self, device, clock, log, fault_fn=None, crash_check=None):
        self.device = device
        self.clock = clock
        self.log = log
        self.fault_fn = fault_fn
        self.crash_check = crash_check
        self.xchg_yield = None
        self.wait = None
        self.latency_fn = None        # (apdu) -> virtual seconds before the answer is readable
        self.index = 0
        self.refuse = 0
        self.transport = []

        class _S:
            exchanges = 0
            faults = {}

            def fault(s, kind):
                s.faults[kind] = s.faults.get(kind, 0) + 1
        self.stats = _S()
        self.stats.faults = {}

    def _seam(self):
        _check_foreign()
        if self.crash_check:
            self.crash_check()

    def tlog(self, *ev):
        self.transport.append(ev)
        self.log.ev("tcp", *ev)


def sever(link):
    """The service instance the open connections talk to is gone (restarted, replaced): they break;
    a new connection reaches whatever listens now."""
    link.generation = getattr(link, "generation", 0) + 1
    link.tlog("severed")


class FakeSock:
    def __init__(self, *a):
        self.link = _LINK
        self.wbuf = bytearray()
        self.rbuf = bytearray()
        self.connected = False
        self.eof = False
        self.ready_at = 0.0
        # a socket is born with the process-wide default time-out (socket.setdefaulttimeout)
        self.timeout = _real_socket.getdefaulttimeout()

    def connect(self, addr):
        link = self.link
        link._seam()
        if link.refuse > 0 or not link.device.present():
            if link.refuse > 0:
                link.refuse -= 1
            link.stats.fault("connect_refused")
            link.tlog("connect_refused")
            raise ConnectionRefusedError(111, "Connection refused")
        self.connected = True
        self.gen = getattr(link, "generation", 0)
        link.tlog("open")
        link.device.on_open()

    def send(self, data):
        link = self.link
        link._seam()
        if not self.connected or getattr(self, "gen", 0) != getattr(link, "generation", 0):
            # not connected, or connected to a service instance that is gone (link.sever())
            raise BrokenPipeError(32, "Broken pipe")
        self.wbuf += bytes(data)
        if len(self.wbuf) >= 4:
            n = struct.unpack(">I", self.wbuf[:4])[0]
            if len(self.wbuf) >= 4 + n:
                apdu = bytes(self.wbuf[4:4 + n])
                del self.wbuf[:4 + n]
                self._deliver(apdu)
        return len(data)

    def _deliver(self, apdu):
        link = self.link
        if link.xchg_yield is not None:
            link.xchg_yield("apdu-delivered")
        idx = link.index
        link.index += 1
        link.stats.exchanges += 1
        kind = link.fault_fn(idx, apdu) if link.fault_fn else None
        if kind == "send_err":
            link.stats.fault(kind)
            link.tlog("xchg", idx, apdu, "send_err")
            raise BrokenPipeError(32, "Broken pipe")
        if kind == "recv_eof":
            link.stats.fault(kind)
            link.tlog("xchg", idx, apdu, "recv_eof")
            self.eof = True
            return
        if isinstance(kind, tuple) and kind[0] == "sw":
            link.stats.fault("sw")
            resp, sw = b"", kind[1]
            link.device.on_injected(apdu, sw)
        else:
            r = link.device.exchange(apdu)
            if r is None:
                link.tlog("xchg", idx, apdu, "noanswer")
                self.eof = True
                return
            resp, sw = r
            if isinstance(kind, tuple) and kind[0] == "alter":
                link.stats.fault("alter")
                resp = bytes(kind[1](bytes(resp)))
        if kind == "recv_eof_after":
            link.stats.fault(kind)
            link.tlog("xchg", idx, apdu, "recv_eof_after", resp, "%04x" % sw)
            self.eof = True
            return
        link.tlog("xchg", idx, apdu, resp, "%04x" % sw)
        self.rbuf += struct.pack(">I", len(resp)) + bytes(resp) + struct.pack(">H", sw)
        if link.latency_fn is not None:
            self.ready_at = link.clock.now + link.latency_fn(apdu)

    def recv(self, n):
        link = self.link
        link._seam()
        if self.rbuf and self.ready_at > link.clock.now:
            need = self.ready_at - link.clock.now
            if self.timeout is not None and need > self.timeout:
                # the answer comes later than this socket is willing to wait: it stays in flight
                # (and will be what the next read returns)
                (link.wait or link.clock.sleep)(self.timeout)
                link.stats.fault("socket_timeout")
                link.tlog("recv-timeout", self.timeout)
                raise _real_socket.timeout("timed out")
            (link.wait or link.clock.sleep)(need)
        if not self.rbuf:
            return b""
        out = bytes(self.rbuf[:n])
        del self.rbuf[:n]
        return out

    def shutdown(self, how):
        pass

    def close(self):
        link = self.link
        link._seam()
        if self.connected:
            self.connected = False
            link.tlog("close")
            link.device.on_close()

    def settimeout(self, t):
        self.timeout = t

    def gettimeout(self):
        return self.timeout


class SocketShim:
    AF_INET = 2
    SOCK_STREAM = 1
    SHUT_RD = 0
    SHUT_WR = 1
    SHUT_RDWR = 2
    error = OSError
    timeout = _real_socket.timeout

    @staticmethod
    def socket(*a):
        return FakeSock()
