"""Model of a powHSM Ledger device (STUB, written from /repo/firmware/src, see
DESIGN.md 3.7 and appendix A - not from the middleware's own tables).

One physical device with three RSK applications: the UI in bootloader mode,
the Signer, the UI in heartbeat mode.  Everything a real device has latitude
over (chunk sizes requested, brothers asked or not, partial success, DER shape,
boot delays, how the USB link dies on EXIT) is a draw from `self.ch`
(a sim.choices.Choices), biased towards extremes.

The model also hosts the *incremental byte-relay oracles*: the check installs
what the device must end up holding (`expect_*`), every chunk is compared as it
arrives and a deviation is recorded in `self.violations` at that event.
"""
import hashlib

CLA = 0x80

MODE_BOOTLOADER = 0x02
MODE_SIGNER = 0x03
MODE_UI_HEARTBEAT = 0x04

# instruction bytes (firmware: instructions.h, ui_instructions.h)
INS_SIGN = 0x02          # signer
INS_ECHO = 0x02          # ui
INS_GET_PUBLIC_KEY = 0x04
INS_IS_ONBOARD = 0x06
INS_WIPE = 0x07
INS_NEWPIN = 0x08
INS_ADVANCE = 0x10
INS_ADVANCE_PARAMS = 0x11
INS_GET_STATE = 0x20
INS_RESET_STATE = 0x21
INS_UPD_ANCESTOR = 0x30
INS_PIN = 0x41
INS_MODE = 0x43
INS_SEED = 0x44
INS_RETRIES = 0x45
INS_ATTESTATION = 0x50
INS_SIGNER_AUTH = 0x51
INS_HEARTBEAT = 0x60
INS_END_NOSIG = 0xFA
INS_UNLOCK = 0xFE
INS_END = 0xFF

SW_OK = 0x9000
ERR_INVALID_DATA_SIZE = 0x6A87
ERR_INVALID_PATH = 0x6A8F


def _binpath(*comps):
    import struct as _struct
    return bytes([5]) + b"".join(_struct.pack("<I", c) for c in comps)


_H = 0x80000000
# pathAuth.c: the paths whose signatures need an authorised (tx + receipt) request, and the ones that
# sign any hash; nothing else is a key of this wallet
AUTH_PATHS = {_binpath(44 + _H, 0 + _H, 0 + _H, 0, 0), _binpath(44 + _H, 1 + _H, 0 + _H, 0, 0)}
NOAUTH_PATHS = {_binpath(44 + _H, 137 + _H, 0 + _H, 0, 0), _binpath(44 + _H, 137 + _H, 1 + _H, 0, 0),
                _binpath(44 + _H, 1 + _H, 1 + _H, 0, 0), _binpath(44 + _H, 1 + _H, 2 + _H, 0, 0)}
ERR_INS_NOT_SUPPORTED = 0x6D00
ERR_UI_PROT_INVALID = 0x6A01
ERR_UI_INVALID_PIN = 0x69A0
ERR_UI_DEVICE_ONBOARDED = 0x69A1
ERR_AUTH_INVALID_STATE = 0x6A89
PROT_INVALID = 0x6B87

CHUNK_EXTREMES = [255, 1, 2, 6, 7, 8, 32, 254]

STATE_SELECTORS = {
    0x01: "best_block", 0x02: "newest_valid_block", 0x03: "ancestor_block",
    0x05: "ancestor_receipts_root", 0x81: "updating.best_block",
    0x82: "updating.newest_valid_block", 0x84: "updating.next_expected_block",
}


class Violation(Exception):
    pass


def pin_policy_ok(pin):
    # firmware/src/common/src/pin_policy.c: exactly 8 alphanumerics, >= 1 alpha
    if len(pin) != 8:
        return False
    has_alpha = False
    for c in pin:
        ch = chr(c)
        if not (ch.isascii() and ch.isalnum()):
            return False
        if ch.isalpha():
            has_alpha = True
    return has_alpha


def sign_transcript(st):
    out = bytes(st["path"])
    for name in st["order"]:
        out += bytes(st["parts"][name].got)
    return out


def der_for(transcript):
    r = hashlib.sha256(b"r" + transcript).digest()
    s_ = hashlib.sha256(b"s" + transcript).digest()
    body = b"\x02\x20" + r + b"\x02\x20" + s_
    return b"\x30" + bytes([len(body)]) + body


class StreamExpect:
    """Incremental comparison of the bytes consumed for one logical stream."""

    def __init__(self, name, expected):
        self.name = name
        self.expected = expected      # bytes or None (record only)
        self.got = bytearray()

    def remaining(self):
        if self.expected is None:
            return None
        return len(self.expected) - len(self.got)


class LedgerDevice:
    def __init__(self, ch, clock, log, seed=b"seed", cfg=None):
        self.ch = ch
        self.clock = clock
        self.log = log
        self.seed = seed
        cfg = dict(cfg or {})
        self.cfg = cfg
        # ---- persistent physical state
        self.mode = cfg.get("mode", MODE_SIGNER)
        self.plugged = True
        self.away_until = None
        self.onboarded = cfg.get("onboarded", True)
        self.pin = cfg.get("pin", b"1234567a")
        self.retries = cfg.get("retries", 3)
        self.ui_version = cfg.get("ui_version", (5, 4, 1))
        self.signer_version = cfg.get("signer_version", (5, 4, 1))
        self.wiped = False
        self.device_seed = None
        # ---- volatile UI state
        self.pinbuf = bytearray(10)
        # ---- signer data (C13)
        self.state = cfg.get("state") or self._default_state()
        self.params = cfg.get("params") or {
            "checkpoint": hashlib.sha256(b"cp" + seed).digest(),
            "min_diff": 0x7000, "network": 0x03}
        self.hb = cfg.get("hb") or {}
        # ---- logs & oracle state
        self.apdus = []            # (mode, apdu)
        self.violations = []       # (signature, detail)
        self.probes = {}
        self.tag = None            # request tag supplier (C12)
        self.tagged = []           # (tag, apdu) for C12
        self.unlocks = 0
        self.pin_sends = 0
        self.pins_seen = []        # PINs as assembled at UNLOCK / NEWPIN / WIPE
        self.newpin_acks = []      # PINs acknowledged by NEWPIN
        # ---- operation state (reset on error / other command)
        self._reset_ops()
        # ---- per-request expectations, installed by the checks
        self.expect = None
        self.script = None         # optional per-command scripted behaviour

    # ------------------------------------------------------------------ infra
    def probe(self, name):
        self.probes[name] = self.probes.get(name, 0) + 1

    def violate(self, sig, detail):
        self.violations.append((sig, detail))

    def _default_state(self):
        s = {}
        for sel, name in STATE_SELECTORS.items():
            s[name] = hashlib.sha256(self.seed + bytes([sel])).digest()
        s["difficulty"] = b"\x01\x00"
        s["flags"] = bytes([0, 0, 0])
        return s

    def _reset_ops(self):
        self.cur_cmd = None
        self.sign = None
        self.adv = None
        self.hbt = None
        self.att = None
        self.sigaut = None

    def present(self):
        if not self.plugged:
            return False
        if self.away_until is not None:
            if self.clock.now >= self.away_until:
                self.away_until = None
            else:
                return False
        return True

    def on_open(self):
        if getattr(self, "_dash_pending", False):
            self._dash_pending = False
            self._dash_armed = True          # this connection finds the dashboard

    def on_close(self):
        # "dashboard_then": after leaving an application the device sits in the dashboard (which does
        # not know CLA 0x80) for one connection only; when the host lets go of it, it is found in
        # that mode next time (e.g. back in a locked bootloader because the signer could not start)
        nxt = self.cfg.get("dashboard_then")
        if nxt is not None and getattr(self, "_dash_armed", False) and \
                self.mode not in (MODE_BOOTLOADER, MODE_SIGNER, MODE_UI_HEARTBEAT):
            self._dash_armed = False
            self.mode = nxt
            self.pinbuf = bytearray(10)
            self._reset_ops()

    def on_injected(self, apdu, sw):
        # the (real) firmware resets every multi-step operation on any error
        self.apdus.append((self.mode, apdu, ("injected", sw)))
        if self.tag:
            self.tagged.append((self.tag(), apdu))
        if sw != SW_OK:
            self._reset_ops()

    def silence_kind(self):
        return self._silence

    def pubkey_for(self, path_bytes):
        k = self.cfg.get("pubkeys", {}).get(path_bytes)
        if k is not None:
            return k
        h = hashlib.sha512(b"pub" + self.seed + path_bytes).digest()
        return b"\x04" + h

    def chunk_size(self, label="chunk"):
        ch = self.ch
        cap = self.cfg.get("max_chunk")
        if cap:
            return ch.int_between(max(1, cap // 2), cap, label + ".cap")
        if self.cfg.get("chunk_regime") == "tiny":
            # a device that asks for a few bytes at a time, all the time: long transfers take
            # thousands of messages
            return 1 + ch.draw(3, label + ".tiny")
        kind = ch.draw(4, label + ".kind")
        if kind == 0:
            return 255
        if kind in (1, 2):
            return ch.pick(CHUNK_EXTREMES, label + ".ext")
        return ch.int_between(1, 255, label + ".rnd")

    # ------------------------------------------------------------------ entry
    def exchange(self, apdu):
        """Returns (data, sw) or None when the device does not answer."""
        mode = self.mode
        self.apdus.append((mode, apdu))
        if self.tag:
            self.tagged.append((self.tag(), apdu))
        self._silence = "read_err"
        if len(apdu) < 2 or apdu[0] != CLA:
            self._reset_ops()
            return (b"", 0x6E11 if mode == MODE_SIGNER else 0x6E22)
        try:
            if mode == MODE_BOOTLOADER:
                r = self._ui(apdu)
            elif mode == MODE_SIGNER:
                r = self._signer(apdu)
            elif mode == MODE_UI_HEARTBEAT:
                r = self._uihb(apdu)
            else:
                r = self._other(apdu)
        except _SW as e:
            self._reset_ops()
            return (b"", e.sw)
        return r

    # ------------------------------------------------------------------ exit
    def _leave(self, next_mode_key, default_next):
        """EXIT: the app quits, USB re-enumerates after a boot delay."""
        ch = self.ch
        self._reset_ops()
        script = self.cfg.get(next_mode_key)
        nxt = default_next
        delay = None
        if isinstance(script, dict):
            nxt = script.get("mode", default_next)
            delay = script.get("delay")
            self._silence = script.get("silence", "read_err")
        else:
            if script is not None:
                nxt = script
            self._silence = ch.pick(["read_err", "timeout"], "exit.silence")
        if delay is None:
            delay = ch.pick([0.2, 0.0, 0.9, 0.5], "exit.delay")
        self.mode = nxt
        self._dash_pending = True
        self.away_until = self.clock.now + delay
        self.log.ev("dev", "leave", nxt, "%.2f" % delay)
        return None

    # ------------------------------------------------------------------ other
    def _other(self, apdu):
        # a foreign application (the dashboard / another app) does not know CLA 0x80
        return (b"", 0x6E00)

    # ------------------------------------------------------------------ UI
    def _ui(self, apdu):
        ins = apdu[1]
        cfg = self.cfg
        if ins == INS_MODE:
            if cfg.get("mode_error"):
                raise _SW(cfg["mode_error"])
            return (bytes([CLA, cfg.get("mode_byte", MODE_BOOTLOADER)]), SW_OK)
        if ins == INS_IS_ONBOARD:
            if cfg.get("onboard_error"):
                raise _SW(cfg["onboard_error"])
            v = self.ui_version
            return (bytes([CLA, 1 if self.onboarded else 0, v[0], v[1], v[2]]), SW_OK)
        if ins == INS_ECHO:
            if cfg.get("echo_bad"):
                out = bytearray(apdu)
                out[-1] ^= 0x01
                return (bytes(out), SW_OK)
            return (bytes(apdu), SW_OK)
        if ins == INS_RETRIES:
            if cfg.get("retries_error"):
                raise _SW(cfg["retries_error"])
            return (bytes([CLA, ins, self.retries & 0xff]), SW_OK)
        if ins == INS_PIN:
            if len(apdu) != 4:
                raise _SW(ERR_UI_PROT_INVALID)
            self.pin_sends += 1
            idx = apdu[2]
            if 0 <= idx <= 8:
                self.pinbuf[idx] = apdu[3]
                self.pinbuf[idx + 1] = 0
            return (bytes(apdu[:3]), SW_OK)
        if ins == INS_UNLOCK:
            self.unlocks += 1
            pin = bytes(self.pinbuf).split(b"\x00")[0]
            self.pins_seen.append(("unlock", pin))
            ok = self._pin_check(pin)
            return (bytes([CLA, ins, 1 if ok else 0]), SW_OK)
        if ins == INS_NEWPIN:
            pin = bytes(self.pinbuf[1:]).split(b"\x00")[0]
            self.pins_seen.append(("newpin", pin))
            behaviour = cfg.get("newpin", "policy")
            self.pinbuf = bytearray(10)
            if behaviour == "refuse" or (behaviour == "policy" and not pin_policy_ok(pin)):
                raise _SW(ERR_UI_INVALID_PIN)
            if isinstance(behaviour, int):
                raise _SW(behaviour)
            self.pin = pin
            self.retries = 3
            self.newpin_acks.append(pin)
            return (bytes([CLA, ins, 2, 1]), SW_OK)
        if ins == INS_SEED:
            if self.onboarded:
                raise _SW(ERR_UI_DEVICE_ONBOARDED)
            if len(apdu) != 4:
                raise _SW(ERR_UI_PROT_INVALID)
            if self.sign is None or self.sign.get("k") != "seed":
                self.sign = {"k": "seed", "buf": {}}
            self.sign["buf"][apdu[2]] = apdu[3]
            return (bytes(apdu[:3]), SW_OK)
        if ins == INS_WIPE:
            if self.onboarded:
                raise _SW(ERR_UI_DEVICE_ONBOARDED)
            return self._ui_wipe(apdu)
        if ins in (INS_END, INS_END_NOSIG):
            default = MODE_SIGNER if ins == INS_END else 0x00
            return self._leave("post_exit_ui" if ins == INS_END else "post_exit_ui_nosig",
                               default)
        if ins == INS_ATTESTATION:
            return self._ui_attestation(apdu)
        if ins == INS_SIGNER_AUTH:
            return self._ui_sigaut(apdu)
        raise _SW(ERR_INS_NOT_SUPPORTED)

    def _pin_check(self, pin):
        forced = self.cfg.get("unlock_result")
        if self.retries <= 0:
            return False
        if forced is not None:
            ok = bool(forced)
        else:
            ok = (pin == self.pin)
        if ok:
            self.retries = 3
        else:
            self.retries -= 1
            if self.retries == 0:
                self.wiped = True
        return ok

    def _ui_wipe(self, apdu):
        raise _SW(ERR_INS_NOT_SUPPORTED)   # overridden in the admin model

    def _ui_attestation(self, apdu):
        raise _SW(ERR_INS_NOT_SUPPORTED)   # overridden in the admin model

    def _ui_sigaut(self, apdu):
        raise _SW(ERR_INS_NOT_SUPPORTED)   # overridden in the admin model

    # ------------------------------------------------------------------ UI hb
    def _uihb(self, apdu):
        ins = apdu[1]
        if ins == INS_MODE:
            return (bytes([CLA, self.cfg.get("mode_byte_uihb", MODE_UI_HEARTBEAT)]), SW_OK)
        if ins == INS_HEARTBEAT:
            return self._heartbeat(apdu, ui=True)
        if ins == INS_END:
            return self._leave("post_exit_uihb", MODE_SIGNER)
        raise _SW(ERR_INS_NOT_SUPPORTED)

    # ------------------------------------------------------------------ signer
    def _signer(self, apdu):
        ins = apdu[1]
        cfg = self.cfg
        if ins != self.cur_cmd and not (ins == INS_GET_STATE and self.cur_cmd == INS_ADVANCE):
            # reset_if_starting
            keep = None
            self._reset_ops()
            self.cur_cmd = ins if ins != INS_GET_STATE else INS_ADVANCE
        if ins == INS_MODE:
            return (bytes([CLA, cfg.get("mode_byte", MODE_SIGNER)]), SW_OK)
        if ins == INS_IS_ONBOARD:
            if cfg.get("onboard_error"):
                raise _SW(cfg["onboard_error"])
            v = self.signer_version
            return (bytes([CLA, 1 if self.onboarded else 0, v[0], v[1], v[2]]), SW_OK)
        if ins == INS_GET_PUBLIC_KEY:
            if len(apdu) != 3 + 4 * 5:
                raise _SW(ERR_INVALID_DATA_SIZE)
            path = bytes(apdu[2:])
            if self.cfg.get("unknown_paths") and path in self.cfg["unknown_paths"]:
                raise _SW(ERR_INVALID_PATH)
            if not self.cfg.get("any_path") and path not in AUTH_PATHS and path not in NOAUTH_PATHS:
                raise _SW(ERR_INVALID_PATH)      # hsm.c: neither pathRequireAuth nor pathDontRequireAuth
            return (self.pubkey_for(path), SW_OK)
        if ins == INS_SIGN:
            return self._sign(apdu)
        if ins == INS_ADVANCE:
            return self._advance(apdu, ancestor=False)
        if ins == INS_UPD_ANCESTOR:
            return self._advance(apdu, ancestor=True)
        if ins == INS_GET_STATE:
            return self._get_state(apdu)
        if ins == INS_RESET_STATE:
            if len(apdu) < 3 or apdu[2] != 0x01:
                raise _SW(PROT_INVALID)
            self.probe("reset_state")
            return (bytes([CLA, ins, 0x02]), SW_OK)
        if ins == INS_ADVANCE_PARAMS:
            p = self.params
            data = p["checkpoint"] + p["min_diff"].to_bytes(36, "big") + bytes([p["network"]])
            return (bytes([CLA, ins, cfg.get("params_op", 0x00)]) + data, SW_OK)
        if ins == INS_HEARTBEAT:
            return self._heartbeat(apdu, ui=False)
        if ins == INS_ATTESTATION:
            return self._signer_attestation(apdu)
        if ins == INS_END:
            return self._leave("post_exit_signer", MODE_UI_HEARTBEAT)
        raise _SW(ERR_INS_NOT_SUPPORTED)

    def _signer_attestation(self, apdu):
        raise _SW(ERR_INS_NOT_SUPPORTED)   # overridden in the admin model

    # ---- get state
    def _get_state(self, apdu):
        if len(apdu) < 3:
            raise _SW(PROT_INVALID)
        op = apdu[2]
        ins = apdu[1]
        if op == 0x01:
            if len(apdu) != 4 or apdu[3] not in STATE_SELECTORS:
                raise _SW(PROT_INVALID)
            h = self.state[STATE_SELECTORS[apdu[3]]]
            return (bytes([CLA, ins, op, apdu[3]]) + h, SW_OK)
        if op == 0x02:
            return (bytes([CLA, ins, op]) + self.state["difficulty"], SW_OK)
        if op == 0x03:
            return (bytes([CLA, ins, op]) + self.state["flags"], SW_OK)
        raise _SW(PROT_INVALID)

    # ---- heartbeat (signer and UI share the op layout)
    def _heartbeat(self, apdu, ui):
        if len(apdu) < 3:
            raise _SW(ERR_UI_PROT_INVALID if ui else ERR_INVALID_DATA_SIZE)
        ins, op = apdu[1], apdu[2]
        ud_size = 32 if ui else 16
        hb = self.hb.get("ui" if ui else "signer") or self._default_hb(ui)
        if op == 0x01:
            if len(apdu) - 3 != ud_size:
                raise _SW(ERR_UI_PROT_INVALID if ui else 0x6B10)
            self.hbt = {"ud": bytes(apdu[3:])}
            return (bytes([CLA, ins, op]), SW_OK)
        if op in (0x02, 0x03):
            if self.hbt is None:
                raise _SW(ERR_UI_PROT_INVALID if ui else 0x6B10)
            if op == 0x02:
                return (bytes([CLA, ins, op]) + hb["signature"], SW_OK)
            msg = hb["msg_prefix"] + (
                self.hbt["ud"] + hb["msg_tail"] if ui else hb["msg_tail"] + self.hbt["ud"])
            return (bytes([CLA, ins, op]) + msg, SW_OK)
        if op == 0x04:
            return (bytes([CLA, ins, op]) + hb["app_hash"], SW_OK)
        if op == 0x05:
            return (bytes([CLA, ins, op]) + hb["pubkey"], SW_OK)
        raise _SW(ERR_UI_PROT_INVALID if ui else 0x6B10)

    def _default_hb(self, ui):
        tag = b"ui" if ui else b"sg"
        h = hashlib.sha256(tag + self.seed).digest()
        return {
            "signature": bytes.fromhex("3006020101020102"),
            "msg_prefix": b"HSM:UI:HB:5.4:" if ui else b"HSM:SIGNER:HB:5.4:",
            "msg_tail": h + (b"\x00\x01" if ui else h[:8]),
            "app_hash": h,
            "pubkey": b"\x04" + hashlib.sha512(tag + self.seed).digest(),
        }

    # ---- sign
    def _sign(self, apdu):
        if len(apdu) < 3:
            raise _SW(ERR_INVALID_DATA_SIZE)
        ins, op = apdu[1], apdu[2]
        data = bytes(apdu[3:])
        ex = self.expect if self.expect and self.expect.get("kind") == "sign" else None
        if op == 0x01:
            if not self.cfg.get("any_path") and len(data) >= 21:
                # auth_path.c: the path decides which of the two message formats is due
                if data[:21] in AUTH_PATHS:
                    if len(data) != 21 + 4:
                        raise _SW(0x6A90)        # ERR_AUTH_INVALID_DATA_SIZE_AUTH_SIGN
                elif data[:21] in NOAUTH_PATHS:
                    if len(data) != 21 + 32:
                        raise _SW(0x6A91)        # ERR_AUTH_INVALID_DATA_SIZE_UNAUTH_SIGN
                else:
                    raise _SW(ERR_INVALID_PATH)  # ERR_AUTH_INVALID_PATH
            if len(data) == 21 + 4:
                authorized = True
            elif len(data) == 21 + 32:
                authorized = False
            else:
                raise _SW(ERR_INVALID_DATA_SIZE)
            if data[0] != 5:
                raise _SW(ERR_INVALID_PATH)
            st = {"k": "sign", "auth": authorized, "path": data, "parts": {},
                  "order": [], "done": False}
            self.sign = st
            if ex is not None:
                ex["seen_path"] = data
                if ex["path"] != data:
                    self.violate("relay/path", "device got %s, expected %s"
                                 % (data.hex(), ex["path"].hex()))
            if not authorized:
                st["done"] = True
                return (bytes([CLA, ins, 0x81]) + self._signature_bytes(), SW_OK)
            return self._sign_open_part(st, "tx", 0x02, ins)
        st = self.sign
        if st is None or st.get("k") != "sign" or st["done"]:
            raise _SW(ERR_AUTH_INVALID_STATE)
        part = {0x02: "tx", 0x04: "receipt", 0x08: "merkle"}.get(op)
        if part is None or st.get("cur") != part:
            raise _SW(ERR_AUTH_INVALID_STATE)
        return self._sign_chunk(st, part, op, ins, data)

    def _sign_open_part(self, st, part, op, ins):
        ch = self.ch
        ex = self.expect if self.expect and self.expect.get("kind") == "sign" else None
        expected = ex[part] if ex is not None else None
        se = StreamExpect(part, expected)
        st["parts"][part] = se
        st["order"].append(part)
        st["cur"] = part
        # termination class for this part: 0 exact, 1 late, 2 early
        term = ch.weighted([(8, "exact"), (2, "late"), (1, "early")], "sign.term." + part)
        if expected is None or (term == "early" and self.cfg.get("no_early")):
            term = "exact"
        se.term = term
        se.extra_asks = ch.int_between(1, 3, "sign.late.n") if term == "late" else 0
        if term == "early" and expected is not None and len(expected) > 1:
            se.stop_at = ch.int_between(1, len(expected) - 1, "sign.early.at")
        else:
            se.stop_at = None
            if term == "early":
                se.term = "exact"
        se.requested = self.chunk_size("sign." + part)
        return (bytes([CLA, ins, op, se.requested]), SW_OK)

    def _sign_chunk(self, st, part, op, ins, data):
        se = st["parts"][part]
        # the firmware insists on exactly the requested amount unless fewer remain
        if se.expected is not None:
            rem = len(se.expected) - len(se.got)
            want = min(se.requested, max(rem, 0))
            if len(data) != want:
                self.violate("relay/chunk-size",
                             "%s: device asked %d with %d remaining, got %d bytes"
                             % (part, se.requested, rem, len(data)))
                raise _SW(ERR_INVALID_DATA_SIZE)
            if se.expected[len(se.got):len(se.got) + len(data)] != data:
                self.violate("relay/bytes",
                             "%s: at offset %d device got %s expected %s"
                             % (part, len(se.got), data.hex()[:80],
                                se.expected[len(se.got):len(se.got) + len(data)].hex()[:80]))
                raise _SW(ERR_INVALID_DATA_SIZE)
        else:
            if len(data) > se.requested:
                raise _SW(ERR_INVALID_DATA_SIZE)
        se.got += data
        if len(data) == 0:
            self.probe("sign.empty_chunk")
        finished = False
        if se.expected is None:
            # record-only mode: a part ends when a short chunk arrives
            finished = len(data) < se.requested
        elif se.term == "early":
            finished = len(se.got) >= se.stop_at
            if finished:
                self.probe("sign.early_termination")
        else:
            rem = len(se.expected) - len(se.got)
            if rem <= 0:
                if se.extra_asks > 0:
                    se.extra_asks -= 1
                    self.probe("sign.late_ask")
                else:
                    finished = True
        if not finished:
            rem = None if se.expected is None else len(se.expected) - len(se.got)
            se.requested = self.chunk_size("sign." + part)
            if se.term == "early" and se.stop_at is not None:
                # never overshoot the early stop
                se.requested = max(1, min(se.requested, se.stop_at - len(se.got)))
            if self.cfg.get("chunk_regime") == "tiny":
                pass                                  # a few bytes at a time, to the end
            elif rem is not None and rem > 0 and self.ch.draw(8, "sign.exactrem") == 1:
                se.requested = min(255, rem)          # exactly-the-remainder
                self.probe("sign.exact_remainder_request")
            elif rem is not None and 0 < rem < 255 and self.ch.draw(8, "sign.rem1") == 1:
                se.requested = rem + 1                # remainder + 1
                self.probe("sign.remainder_plus_one_request")
            return (bytes([CLA, ins, op, se.requested]), SW_OK)
        nxt = {"tx": ("receipt", 0x04), "receipt": ("merkle", 0x08), "merkle": None}[part]
        if nxt is None:
            st["done"] = True
            st["cur"] = None
            return (bytes([CLA, ins, 0x81]) + self._signature_bytes(), SW_OK)
        return self._sign_open_part(st, nxt[0], nxt[1], ins)

    def _signature_bytes(self):
        ex = self.expect if self.expect and self.expect.get("kind") == "sign" else None
        if ex is not None and ex.get("der") is not None:
            return ex["der"]
        if self.cfg.get("sig_from_request") and self.sign is not None:
            # the signature identifies exactly what this device consumed for this request
            return der_for(sign_transcript(self.sign))
        return bytes.fromhex("3006020101020102")

    # ---- advance / update ancestor
    def _advance(self, apdu, ancestor):
        if len(apdu) < 3:
            raise _SW(PROT_INVALID)
        ins, op = apdu[1], apdu[2]
        data = bytes(apdu[3:])
        ch = self.ch
        ex = self.expect if self.expect and self.expect.get("kind") == "blocks" else None
        OP_INIT, OP_META, OP_CHUNK = 0x02, 0x03, 0x04
        OP_PARTIAL, OP_SUCCESS = (None, 0x05) if ancestor else (0x05, 0x06)
        OP_BROLIST, OP_BROMETA, OP_BROCHUNK = 0x07, 0x08, 0x09
        if op == OP_INIT:
            if len(data) != 4:
                raise _SW(PROT_INVALID)
            n = int.from_bytes(data, "big")
            if n == 0:
                raise _SW(PROT_INVALID)
            self.adv = {"k": "adv", "anc": ancestor, "count": n, "blk": 0, "state": "meta",
                        "blocks": [], "cur": None}
            if ex is not None:
                ex["seen_count"] = n
                if n != len(ex["blocks"]):
                    self.violate("blocks/count", "announced %d, client sent %d"
                                 % (n, len(ex["blocks"])))
                # the device decides up-front after how many blocks it stops
                self.adv["stop_after"] = ex.get("stop_after")
            return (bytes([CLA, ins, OP_META]), SW_OK)
        a = self.adv
        if a is None or a.get("k") != "adv" or a["anc"] != ancestor:
            raise _SW(PROT_INVALID)
        if op in (OP_META, OP_BROMETA) and not (ancestor and op == OP_BROMETA):
            bro = op == OP_BROMETA
            if a["state"] != ("brometa" if bro else "meta"):
                raise _SW(PROT_INVALID)
            want = 2 if ancestor else 34
            if len(data) != want:
                if ex is not None:
                    self.violate("blocks/meta-size", "metadata of %d bytes" % len(data))
                raise _SW(PROT_INVALID)
            exp_hdr = None
            if ex is not None:
                bi = a["blk"]
                if bi >= len(ex["blocks"]):
                    self.violate("blocks/extra", "more blocks than announced")
                    raise _SW(PROT_INVALID)
                eb = ex["blocks"][bi]
                if bro:
                    j = a["bro_idx"]
                    if j >= len(eb["brothers"]):
                        self.violate("blocks/extra-brother", "block %d" % bi)
                        raise _SW(PROT_INVALID)
                    eb = eb["brothers"][j]
                if data != eb["meta"]:
                    self.violate("blocks/meta", "block %d%s: metadata %s expected %s" % (
                        bi, (" brother %d" % a["bro_idx"]) if bro else "",
                        data.hex(), eb["meta"].hex()))
                    raise _SW(PROT_INVALID)
                exp_hdr = eb["bytes"]
            se = StreamExpect("brother" if bro else "block", exp_hdr)
            term = ch.weighted([(8, "exact"), (2, "late"), (2, "early")], "adv.term")
            if exp_hdr is None or len(exp_hdr) < 2 or \
                    (term == "early" and self.cfg.get("no_early")):
                term = "exact"
            se.term = term
            se.extra_asks = ch.int_between(1, 2, "adv.late.n") if term == "late" else 0
            se.stop_at = ch.int_between(1, len(exp_hdr) - 1, "adv.early.at") \
                if term == "early" else None
            se.requested = self.chunk_size("adv.chunk")
            a["cur"] = se
            a["state"] = "brochunk" if bro else "chunk"
            return (bytes([CLA, ins, OP_BROCHUNK if bro else OP_CHUNK, se.requested]), SW_OK)
        if op in (OP_CHUNK, OP_BROCHUNK) and not (ancestor and op == OP_BROCHUNK):
            bro = op == OP_BROCHUNK
            if a["state"] != ("brochunk" if bro else "chunk"):
                raise _SW(PROT_INVALID)
            se = a["cur"]
            if se.expected is not None:
                rem = len(se.expected) - len(se.got)
                want = min(se.requested, max(rem, 0))
                if len(data) != want:
                    self.violate("blocks/chunk-size",
                                 "%s: device asked %d with %d remaining, got %d bytes"
                                 % (se.name, se.requested, rem, len(data)))
                    raise _SW(PROT_INVALID)
                if se.expected[len(se.got):len(se.got) + len(data)] != data:
                    self.violate("blocks/bytes", "%s %d: at offset %d got %s expected %s" % (
                        se.name, a["blk"], len(se.got), data.hex()[:80],
                        se.expected[len(se.got):len(se.got) + len(data)].hex()[:80]))
                    raise _SW(PROT_INVALID)
            elif len(data) > se.requested:
                raise _SW(PROT_INVALID)
            se.got += data
            if len(data) == 0:
                self.probe("adv.empty_chunk")
            if se.expected is None:
                finished = len(data) < se.requested
            elif se.term == "early":
                finished = len(se.got) >= se.stop_at
                if finished:
                    self.probe("adv.early_termination")
            else:
                finished = False
                if len(se.expected) - len(se.got) <= 0:
                    if se.extra_asks > 0:
                        se.extra_asks -= 1
                        self.probe("adv.late_ask")
                    else:
                        finished = True
            if not finished:
                se.requested = self.chunk_size("adv.chunk")
                if se.term == "early":
                    se.requested = max(1, min(se.requested, se.stop_at - len(se.got)))
                return (bytes([CLA, ins, op, se.requested]), SW_OK)
            # header done
            if bro:
                a["bro_idx"] += 1
                if a["bro_idx"] < a["bro_count"]:
                    a["state"] = "brometa"
                    return (bytes([CLA, ins, OP_BROMETA]), SW_OK)
                return self._adv_end_of_block(a, ins, ex, OP_META, OP_PARTIAL, OP_SUCCESS)
            # block header done: brothers?
            if not ancestor:
                ask = ch.draw(3, "adv.askbro") != 0 if ex is None or ex.get("ask_brothers") is None \
                    else ex["ask_brothers"][a["blk"] % len(ex["ask_brothers"])]
                if ask:
                    a["state"] = "brolist"
                    self.probe("adv.brothers_asked")
                    return (bytes([CLA, ins, OP_BROLIST]), SW_OK)
            return self._adv_end_of_block(a, ins, ex, OP_META, OP_PARTIAL, OP_SUCCESS)
        if op == OP_BROLIST and not ancestor:
            if a["state"] != "brolist" or len(data) != 1:
                raise _SW(PROT_INVALID)
            n = data[0]
            if ex is not None:
                eb = ex["blocks"][a["blk"]]
                if n != len(eb["brothers"]):
                    self.violate("blocks/brother-count", "block %d: count %d expected %d"
                                 % (a["blk"], n, len(eb["brothers"])))
                    raise _SW(PROT_INVALID)
            a["bro_count"] = n
            a["bro_idx"] = 0
            if n == 0:
                self.probe("adv.zero_brothers")
                return self._adv_end_of_block(a, ins, ex, OP_META, OP_PARTIAL, OP_SUCCESS)
            a["state"] = "brometa"
            return (bytes([CLA, ins, OP_BROMETA]), SW_OK)
        raise _SW(PROT_INVALID)

    def _adv_end_of_block(self, a, ins, ex, OP_META, OP_PARTIAL, OP_SUCCESS):
        a["blk"] += 1
        last = a["blk"] >= a["count"]
        stop = a.get("stop_after")
        if ex is not None:
            ex["blocks_done"] = a["blk"]
        if last or (stop is not None and a["blk"] >= stop["n"]):
            if OP_PARTIAL is not None and stop is not None and stop["partial"]:
                res = OP_PARTIAL
            else:
                res = OP_SUCCESS
            if ex is not None:
                ex["result"] = "partial" if res == OP_PARTIAL else "success"
            if not last:
                self.probe("adv.stopped_before_last_block")
            self.adv = None
            return (bytes([CLA, ins, res]), SW_OK)
        a["state"] = "meta"
        return (bytes([CLA, ins, OP_META]), SW_OK)


class _SW(Exception):
    def __init__(self, sw):
        self.sw = sw
