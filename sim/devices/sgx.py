"""Model of the SGX powHSM enclave (STUB, from firmware/src/sgx/src/trusted/system.c
and hal/sgx access.c): the system layer handles SGX_* commands and reports
bootloader mode while locked; everything else goes to the Signer model and
requires the enclave to be unlocked."""
from sim.devices.ledger import (LedgerDevice, _SW, CLA, SW_OK, MODE_SIGNER, MODE_BOOTLOADER,
                                INS_MODE, INS_IS_ONBOARD, INS_HEARTBEAT, INS_END,
                                ERR_INS_NOT_SUPPORTED, pin_policy_ok)

SGX_ONBOARD = 0xA0
SGX_IS_LOCKED = 0xA1
SGX_RETRIES = 0xA2
SGX_UNLOCK = 0xA3
SGX_ECHO = 0xA4
SGX_CHANGE_PASSWORD = 0xA5
SGX_UPGRADE = 0xA6

ERR_DEVICE_NOT_ONBOARDED = 0x6BEE
ERR_DEVICE_ONBOARDED = 0x6BEF
ERR_ONBOARDING = 0x6BF0
ERR_DEVICE_LOCKED = 0x6BF1
ERR_PASSWORD_CHANGE = 0x6BF2
ERR_INVALID_DATA_SIZE = 0x6A87


class SgxDevice(LedgerDevice):
    def __init__(self, ch, clock, log, seed=b"seed", cfg=None):
        cfg = dict(cfg or {})
        super().__init__(ch, clock, log, seed=seed, cfg=cfg)
        self.locked = cfg.get("locked", True)
        self.mode = MODE_SIGNER           # the signer is the only application
        self.onboard_seed = None
        self.seeds_received = []

    def exchange(self, apdu):
        self.apdus.append(("sgx-locked" if self.locked else "sgx", apdu))
        if self.tag:
            self.tagged.append((self.tag(), apdu))
        self._silence = "read_err"
        if len(apdu) < 2 or apdu[0] != CLA:
            return (b"", 0x6E11)
        ins = apdu[1]
        cfg = self.cfg
        try:
            if ins == INS_MODE:
                if cfg.get("mode_error"):
                    raise _SW(cfg["mode_error"])
                if self.locked:
                    return (bytes([CLA, cfg.get("mode_byte", MODE_BOOTLOADER)]), SW_OK)
                return (bytes([CLA, cfg.get("mode_byte_unlocked", MODE_SIGNER)]), SW_OK)
            if ins == SGX_ONBOARD:
                return self._onboard(apdu)
            if ins == SGX_IS_LOCKED:
                self._req_onboarded()
                return (bytes([CLA, ins, 1 if self.locked else 0]), SW_OK)
            if ins == SGX_RETRIES:
                self._req_onboarded()
                if cfg.get("retries_error"):
                    raise _SW(cfg["retries_error"])
                return (bytes([CLA, ins, self.retries & 0xff]), SW_OK)
            if ins == SGX_UNLOCK:
                self._req_onboarded()
                self.unlocks += 1
                pin = bytes(apdu[3:])
                self.pins_seen.append(("unlock", pin))
                if not self.locked:
                    return (bytes([CLA, ins, 1]), SW_OK)
                if len(apdu) <= 3:
                    raise _SW(ERR_INVALID_DATA_SIZE)
                ok = self._pin_check(pin)
                if ok:
                    self.locked = False
                return (bytes([CLA, ins, 1 if ok else 0]), SW_OK)
            if ins == SGX_ECHO:
                if cfg.get("echo_bad"):
                    out = bytearray(apdu)
                    out[-1] ^= 0x01
                    return (bytes(out), SW_OK)
                return (bytes(apdu), SW_OK)
            if ins == SGX_CHANGE_PASSWORD:
                self._req_onboarded()
                if self.locked:
                    raise _SW(ERR_DEVICE_LOCKED)
                pin = bytes(apdu[3:])
                self.pins_seen.append(("newpin", pin))
                behaviour = cfg.get("newpin", "policy")
                if len(pin) < 1:
                    raise _SW(ERR_INVALID_DATA_SIZE)
                if behaviour == "refuse":
                    raise _SW(ERR_PASSWORD_CHANGE)
                if behaviour == "zero":
                    return (bytes([CLA, ins, 0]), SW_OK)
                if isinstance(behaviour, int):
                    raise _SW(behaviour)
                if not pin_policy_ok(pin) and not cfg.get("debug_build"):
                    raise _SW(ERR_PASSWORD_CHANGE)      # access_set_password enforces the policy
                self.pin = pin
                self.retries = 3
                self.locked = True                      # "Password set, access locked"
                self.newpin_acks.append(pin)
                return (bytes([CLA, ins, 1]), SW_OK)
            if ins == INS_HEARTBEAT:
                raise _SW(ERR_INS_NOT_SUPPORTED)
            # ---- powHSM handler
            if ins == INS_IS_ONBOARD:
                if cfg.get("onboard_error"):
                    raise _SW(cfg["onboard_error"])
                # one enclave reports one version; a model option lets the version seen while locked
                # differ (the property quantifies over UI / signer versions on every platform)
                v = self.ui_version if (self.locked and cfg.get("two_versions")) else self.signer_version
                return (bytes([CLA, 1 if self.onboarded else 0, v[0], v[1], v[2]]), SW_OK)
            if self.locked:
                raise _SW(ERR_DEVICE_LOCKED)
            if ins == INS_END:
                # platform_request_exit is a no-op for the enclave: it answers and stays up
                return (bytes([CLA, ins, 0]), SW_OK)
            if not self.onboarded:
                raise _SW(ERR_DEVICE_NOT_ONBOARDED)
            return self._signer(apdu)
        except _SW as e:
            self._reset_ops()
            return (b"", e.sw)

    def _req_onboarded(self):
        if not self.onboarded:
            raise _SW(ERR_DEVICE_NOT_ONBOARDED)

    def _onboard(self, apdu):
        if self.onboarded:
            raise _SW(ERR_DEVICE_ONBOARDED)
        data = bytes(apdu[3:])
        if len(data) < 32 + 1:
            raise _SW(ERR_INVALID_DATA_SIZE)
        self.onboard_seed = data[:32]
        pin = data[32:]
        self.pins_seen.append(("onboard", pin))
        self.seeds_received.append((self.onboard_seed, 32))
        if self.cfg.get("onboard_fails") or (not pin_policy_ok(pin)
                                             and not self.cfg.get("debug_build")):
            raise _SW(ERR_ONBOARDING)
        self.pin = pin
        self.onboarded = True
        self.retries = 3
        self.locked = True                              # "Password set, access locked"
        return (bytes([CLA, apdu[1], 1]), SW_OK)
