"""Admin-side extension of the Ledger model (STUB, from firmware/src/ledger/ui/src
attestation.c, signer_authorization.c, onboard.c, powhsm/src/attestation.c and
the BOLOS admin APDUs as parsed by admin/dongle_admin.py): onboarding, BOLOS
endorsement setup, UI / Signer attestation, signer authorisation with real ECDSA
verification, a minimal Ethereum app.

A *genuine* device: issuer (root), device, attestation and wallet keys, UI and
signer hashes are drawn per run; application keys follow BOLOS endorsement
scheme two: app_priv = att_priv + HMAC-SHA256(key=app_hash, msg=att_pub65) mod n.
"""
import hashlib
import hmac

import secp256k1 as ec
from Crypto.Hash import keccak as _keccak

from sim.devices.ledger import (LedgerDevice, _SW, CLA, SW_OK, MODE_BOOTLOADER, MODE_SIGNER,
                                ERR_UI_PROT_INVALID, ERR_UI_INVALID_PIN, pin_policy_ok,
                                ERR_INS_NOT_SUPPORTED)

N = 0xFFFFFFFFFFFFFFFFFFFFFFFFFFFFFFFEBAAEDCE6AF48A03BBFD25E8CD0364141
MODE_DASHBOARD = 0x00
MODE_ETH = 0x10
BOLOS_CLA = 0xE0
ATT_NO_ONBOARD = 0x6A02
ERR_SIGAUT_INVALID_ITERATION = 0x6A03

ORDERED_PATHS = ["m/44'/0'/0'/0/0", "m/44'/1'/0'/0/0", "m/44'/1'/1'/0/0", "m/44'/1'/2'/0/0",
                 "m/44'/137'/0'/0/0", "m/44'/137'/1'/0/0"]


def keccak256(b):
    return _keccak.new(digest_bits=256).update(b).digest()


def scalar(b):
    v = int.from_bytes(hashlib.sha256(b).digest(), "big") % (N - 1) + 1
    return v.to_bytes(32, "big")


class Key:
    def __init__(self, priv32):
        self.priv = priv32
        self.k = ec.PrivateKey(priv32, raw=True)
        self.pub65 = self.k.pubkey.serialize(compressed=False)
        self.pub33 = self.k.pubkey.serialize(compressed=True)

    def sign(self, msg):
        """DER, low-S, deterministic (RFC 6979), over SHA-256(msg)."""
        return self.k.ecdsa_serialize(self.k.ecdsa_sign(msg))

    def sign_digest(self, digest32):
        return self.k.ecdsa_serialize(self.k.ecdsa_sign(digest32, raw=True))


def app_key(att, app_hash):
    t = int.from_bytes(hmac.new(app_hash, att.pub65, hashlib.sha256).digest(), "big")
    return Key(((int.from_bytes(att.priv, "big") + t) % N).to_bytes(32, "big"))


def path_binary(path):
    import struct
    out = bytearray([5])
    for comp in path[2:].split("/"):
        hard = comp.endswith("'")
        out += struct.pack("<I", int(comp.rstrip("'")) + (0x80000000 if hard else 0))
    return bytes(out)


class AdminLedgerDevice(LedgerDevice):
    def __init__(self, ch, clock, log, seed=b"seed", cfg=None):
        super().__init__(ch, clock, log, seed=seed, cfg=cfg)
        cfg = self.cfg
        s = seed
        self.issuer = Key(scalar(b"issuer" + s))
        self.device_key = Key(scalar(b"device" + s))
        self.att_key = Key(scalar(b"att" + s)) if cfg.get("endorsed", False) else None
        self.ui_hash = hashlib.sha256(b"uihash" + s).digest()
        self.signer_hash = hashlib.sha256(b"signerhash" + s).digest()
        self.signer_iteration = cfg.get("signer_iteration", 1)
        self.cert_header = cfg.get("cert_header", b"\x10\xb4\x80\x81\xbe\x20\x28\x04")
        self.wallet_seed = hashlib.sha256(b"wallet" + s).digest() if self.onboarded else None
        self.best_block = hashlib.sha256(b"best" + s).digest()
        self.last_tx = hashlib.sha256(b"lasttx" + s).digest()[:8]
        self.timestamp = 0
        self.legacy_signer = cfg.get("legacy_signer", False)
        self.ui_page = cfg.get("ui_page", 80)
        self.signer_page = cfg.get("signer_page", 255)
        self.onboard_performed = False
        self.host_seed = {}
        self.seeds_received = []           # host seeds as sent (C18)
        self.authorizers = cfg.get("authorizers", [])      # list of pub65
        self.sigaut_log = []               # (op, data)
        self.eth_keys = cfg.get("eth_keys", {})            # path bytes -> Key
        self.eth_log = []
        self.att_state = None
        self.ctxlog = []                   # (mode, onboarded, apdu) at the time of each APDU
        self.byz = cfg.get("byzantine", {})                # C08: correctly-signing deviations

    # ---- wallet keys
    def wallet_key(self, path_bytes):
        return Key(scalar(b"k" + (self.wallet_seed or b"") + path_bytes))

    def pubkey_for(self, path_bytes):
        k = self.cfg.get("pubkeys", {}).get(path_bytes)
        if k is not None:
            return k
        return self.wallet_key(path_bytes).pub65

    def keys_hash(self):
        order = self.byz.get("keys_order", ORDERED_PATHS)
        h = hashlib.sha256()
        for p in order:
            h.update(self.pubkey_for(path_binary(p)))
        return h.digest()

    # ---- replug (operator action)
    def replug(self):
        self._reset_ops()
        self.onboard_performed = False
        self.pinbuf = bytearray(10)
        self.away_until = None
        self.mode = MODE_BOOTLOADER
        self.att_state = None

    # ---- dispatch additions
    def exchange(self, apdu):
        self.ctxlog.append((self.mode, self.onboarded, bytes(apdu)))
        if len(apdu) >= 2 and apdu[0] == BOLOS_CLA and self.mode == MODE_DASHBOARD:
            self.apdus.append((self.mode, apdu))
            try:
                return self._bolos(apdu)
            except _SW as e:
                return (b"", e.sw)
        if self.mode == MODE_ETH:
            self.apdus.append((self.mode, apdu))
            try:
                return self._eth(apdu)
            except _SW as e:
                return (b"", e.sw)
        if self.mode == MODE_BOOTLOADER and self.onboard_performed:
            # after onboarding the UI refuses everything until the device is replugged
            self.apdus.append((self.mode, apdu))
            return (b"", ERR_INS_NOT_SUPPORTED)
        return super().exchange(apdu)

    # ---- onboarding (UI)
    def _ui(self, apdu):
        ins = apdu[1]
        if ins == 0x44:        # SEED
            if self.onboarded:
                raise _SW(0x69A1)
            if len(apdu) != 4:
                raise _SW(ERR_UI_PROT_INVALID)
            if apdu[2] < 32:
                self.host_seed[apdu[2]] = apdu[3]
            return (b"", SW_OK)
        return super()._ui(apdu)

    def _ui_wipe(self, apdu):
        pin = bytes(self.pinbuf[1:]).split(b"\x00")[0]
        self.pins_seen.append(("onboard", pin))
        host_seed = bytes(self.host_seed.get(i, 0) for i in range(32))
        self.seeds_received.append((host_seed, len(self.host_seed)))
        if not self.cfg.get("debug_build") and not pin_policy_ok(pin):
            raise _SW(ERR_UI_INVALID_PIN)
        self.wiped = True
        rng = hashlib.sha256(b"cx_rng" + self.seed).digest()
        self.wallet_seed = hashlib.sha256(bytes(a ^ b for a, b in zip(rng, host_seed))).digest()
        self.pin = pin
        self.retries = 3
        self.onboarded = True
        self.att_key = None                 # attestation keys generated before are wiped
        self.onboard_performed = True
        self.pinbuf = bytearray(10)
        self.host_seed = {}
        return (bytes([CLA, 2, 1]), SW_OK)

    # ---- UI attestation
    def _ui_attestation(self, apdu):
        if not self.onboarded:
            raise _SW(ATT_NO_ONBOARD)
        if len(apdu) < 3:
            raise _SW(ERR_UI_PROT_INVALID)
        ins, op = apdu[1], apdu[2]
        if op == 0x04:
            return (bytes([CLA, ins, op]) + self.ui_hash, SW_OK)
        if op == 0x01:
            if len(apdu) - 3 != 32:
                raise _SW(ERR_UI_PROT_INVALID)
            ud = bytes(apdu[3:])
            btc = self.byz.get("ui_btc_key") or self.wallet_key(path_binary(ORDERED_PATHS[0])).pub33
            if callable(btc):
                # a key derived from the genuine one (same X other parity, one byte apart): another key
                btc = btc(self.wallet_key(path_binary(ORDERED_PATHS[0])).pub33)
            msg = self.byz.get("ui_header", b"HSM:UI:5.4") + ud + btc + self.signer_hash + \
                self.signer_iteration.to_bytes(2, "big") + self.byz.get("ui_tail", b"")
            self.att_state = {"msg": msg}
            return (bytes([CLA, ins, op]), SW_OK)
        if self.att_state is None:
            raise _SW(ERR_UI_PROT_INVALID)
        msg = self.att_state["msg"]
        if op == 0x02:
            if len(apdu) != 4:
                raise _SW(ERR_UI_PROT_INVALID)
            ps = self.ui_page
            npages = max(1, (len(msg) + ps - 1) // ps)
            page = apdu[3]
            if page >= npages:
                raise _SW(ERR_UI_PROT_INVALID)
            chunk = msg[page * ps:(page + 1) * ps]
            return (bytes([CLA, ins, op, 1 if page < npages - 1 else 0]) + chunk, SW_OK)
        if op == 0x03:
            if self.att_key is None:
                raise _SW(0x6A99)
            sig = app_key(self.att_key, self.ui_hash).sign(msg)
            self.att_state = None
            return (bytes([CLA, ins, op]) + sig, SW_OK)
        raise _SW(ERR_UI_PROT_INVALID)

    # ---- signer attestation (powHSM)
    def powhsm_message(self, ud):
        if self.legacy_signer:
            m = self.byz.get("signer_header_legacy", b"HSM:SIGNER:5.4") + \
                self.byz.get("keys_hash", self.keys_hash()) + self.byz.get("signer_tail", b"")
            cut = self.byz.get("signer_cut", 0)
            return m[:len(m) - cut] if cut else m
        m = self.byz.get("signer_header", b"POWHSM:5.4::") + self.byz.get("platform", b"led") + \
            self.byz.get("signer_ud", ud) + self.byz.get("keys_hash", self.keys_hash()) + self.best_block + self.last_tx + \
            self.timestamp.to_bytes(8, "big") + self.byz.get("signer_tail", b"")
        cut = self.byz.get("signer_cut", 0)
        return m[:len(m) - cut] if cut else m

    def _signer_attestation(self, apdu):
        if len(apdu) < 3:
            raise _SW(0x6A01)
        ins, op = apdu[1], apdu[2]
        if op == 0x01:
            if len(apdu) - 3 != 32:
                raise _SW(0x6A01)
            if self.att_key is None:
                raise _SW(0x6A99)
            msg = self.powhsm_message(bytes(apdu[3:]))
            self.att_state = {"msg": msg}
            sig = app_key(self.att_key, self.signer_hash).sign(msg)
            return (bytes([CLA, ins, op]) + sig, SW_OK)
        if self.att_state is None:
            raise _SW(0x6A01)
        msg = self.att_state["msg"]
        if op in (0x02, 0x04):
            if len(apdu) != 4:
                raise _SW(0x6A01)
            if self.legacy_signer:
                if op == 0x04:
                    raise _SW(0x6A01)
                return (bytes([CLA, ins, op]) + msg, SW_OK)
            ps = self.signer_page
            npages = max(1, (len(msg) + ps - 1) // ps)
            page = apdu[3]
            if page >= npages:
                raise _SW(0x6A01)
            chunk = msg[page * ps:(page + 1) * ps]
            return (bytes([CLA, ins, op, 1 if page < npages - 1 else 0]) + chunk, SW_OK)
        if op == 0x03:
            return (bytes([CLA, ins, op]) + self.signer_hash, SW_OK)
        raise _SW(0x6A01)

    # ---- BOLOS admin (dashboard)
    def _bolos(self, apdu):
        ins = apdu[1]
        if ins == 0x04:
            return (b"", SW_OK)
        if ins == 0x50:
            self.host_nonce = bytes(apdu[5:13])
            dn = hashlib.sha256(b"devnonce" + self.seed).digest()[:8]
            return (b"\x00\x00\x00\x01" + dn, SW_OK)
        if ins == 0x51:
            return (b"", SW_OK)
        if ins == 0x52:
            if apdu[2] == 0x00:
                hdr = self.cert_header
                signed = b"\x02" + hdr + self.device_key.pub65
                sig = self.issuer.sign(signed)
                return (bytes([len(hdr)]) + hdr + bytes([65]) + self.device_key.pub65 +
                        bytes([len(sig)]) + sig, SW_OK)
            eph = Key(scalar(b"eph" + self.seed))
            sig = self.device_key.sign(b"\x12" + eph.pub65)
            return (bytes([0]) + bytes([65]) + eph.pub65 + bytes([len(sig)]) + sig, SW_OK)
        if ins == 0xC0:
            if not self.onboarded:
                raise _SW(0x6985)
            self.pending_att = Key(scalar(b"att" + self.seed + (self.wallet_seed or b"")))
            sig = self.device_key.sign(b"\xff" + self.pending_att.pub65)
            return (self.pending_att.pub65 + sig, SW_OK)
        if ins == 0xC2:
            if getattr(self, "pending_att", None) is None:
                raise _SW(0x6985)
            self.att_key = self.pending_att
            self.pending_att = None
            return (b"", SW_OK)
        raise _SW(0x6D00)

    # ---- signer authorisation (UI)
    def sigaut_digest(self, signer_hash, iteration):
        msg = b"RSK_powHSM_signer_" + signer_hash.hex().encode() + b"_iteration_" + \
            str(iteration).encode()
        return keccak256(b"\x19Ethereum Signed Message:\n" + str(len(msg)).encode() + msg)

    def _ui_sigaut(self, apdu):
        if len(apdu) < 3:
            raise _SW(ERR_UI_PROT_INVALID)
        ins, op = apdu[1], apdu[2]
        data = bytes(apdu[3:])
        self.sigaut_log.append((op, data))
        if op == 0x01:
            if self.sigaut is not None or len(data) != 34:
                self.sigaut = None
                raise _SW(ERR_UI_PROT_INVALID)
            h, it = data[:32], int.from_bytes(data[32:], "big")
            if it <= self.signer_iteration:
                raise _SW(ERR_SIGAUT_INVALID_ITERATION)
            self.sigaut = {"hash": h, "iteration": it, "verified": set(),
                           "digest": self.sigaut_digest(h, it)}
            return (bytes([CLA, ins, op]), SW_OK)
        if op == 0x02:
            sa = self.sigaut
            if sa is None:
                raise _SW(ERR_UI_PROT_INVALID)
            for i, pub in enumerate(self.authorizers):
                try:
                    pk = ec.PublicKey(pub, raw=True)
                    sig = pk.ecdsa_deserialize(data)
                    sig = pk.ecdsa_signature_normalize(sig)[1]   # BOLOS accepts high-S
                    if pk.ecdsa_verify(sa["digest"], sig, raw=True):
                        sa["verified"].add(i)
                        break
                except Exception:
                    continue
            threshold = len(self.authorizers) // 2 + 1
            if len(sa["verified"]) >= threshold:
                self.signer_hash = sa["hash"]
                self.signer_iteration = sa["iteration"]
                self.sigaut = None
                return (bytes([CLA, ins, op, 0x02]), SW_OK)
            return (bytes([CLA, ins, op, 0x01]), SW_OK)
        self.sigaut = None
        raise _SW(ERR_UI_PROT_INVALID)

    # ---- Ethereum app (signapp eth): CLA E0, INS 02 get address, INS 08 sign personal message
    def _eth(self, apdu):
        if apdu[0] != 0xE0:
            raise _SW(0x6E00)
        ins = apdu[1]
        data = bytes(apdu[5:5 + apdu[4]]) if len(apdu) > 4 else b""
        self.eth_log.append((ins, bytes(apdu)))
        if ins == 0x02:
            path = data
            k = self.eth_keys.get(path)
            if k is None:
                raise _SW(0x6A15)
            addr = keccak256(k.pub65[1:])[-20:].hex().encode()
            return (bytes([65]) + k.pub65 + bytes([len(addr)]) + addr, SW_OK)
        if ins == 0x08:
            # first (only) chunk: path | 4-byte message length | message
            n = data[0]
            path = data[:1 + 4 * n]
            mlen = int.from_bytes(data[1 + 4 * n:5 + 4 * n], "big")
            msg = data[5 + 4 * n:5 + 4 * n + mlen]
            k = self.eth_keys.get(path)
            if k is None:
                raise _SW(0x6A15)
            digest = keccak256(b"\x19Ethereum Signed Message:\n" + str(len(msg)).encode() + msg)
            rs = k.k.ecdsa_sign_recoverable(digest, raw=True)
            ser, recid = k.k.ecdsa_recoverable_serialize(rs)
            return (bytes([27 + recid]) + ser, SW_OK)
        raise _SW(0x6D00)
