"""Admin-side extension of the SGX enclave model: valid wallet keys, powHSM
attestation with a DCAP-style quote envelope (see refs/sgxpki.py for the
simulated Intel PKI)."""
import hashlib

from sim.devices.sgx import SgxDevice
from sim.devices.ledger import _SW, CLA, SW_OK
from sim.devices.ledger_admin import Key, scalar, path_binary, ORDERED_PATHS


class SgxAdminDevice(SgxDevice):
    def __init__(self, ch, clock, log, seed=b"seed", cfg=None):
        super().__init__(ch, clock, log, seed=seed, cfg=cfg)
        self.wallet_seed = hashlib.sha256(b"wallet" + seed).digest() if self.onboarded else None
        self.best_block = hashlib.sha256(b"best" + seed).digest()
        self.last_tx = hashlib.sha256(b"lasttx" + seed).digest()[:8]
        self.ctxlog = []
        self.att_state = None
        self.byz = self.cfg.get("byzantine", {})
        self.quote_builder = self.cfg.get("quote_builder")     # callable(message) -> envelope bytes
        self.page = self.cfg.get("page", 200)

    def exchange(self, apdu):
        self.ctxlog.append(("locked" if self.locked else "unlocked", self.onboarded, bytes(apdu)))
        return super().exchange(apdu)

    def wallet_key(self, path_bytes):
        return Key(scalar(b"k" + (self.wallet_seed or b"") + path_bytes))

    def pubkey_for(self, path_bytes):
        k = self.cfg.get("pubkeys", {}).get(path_bytes)
        if k is not None:
            return k
        return self.wallet_key(path_bytes).pub65

    def keys_hash(self):
        order = self.byz.get("keys_order", ORDERED_PATHS)
        h = hashlib.sha256()
        for p in order:
            h.update(self.pubkey_for(path_binary(p)))
        return h.digest()

    def _onboard(self, apdu):
        r = super()._onboard(apdu)
        self.wallet_seed = hashlib.sha256(b"sgxseed" + (self.onboard_seed or b"")).digest()
        return r

    def powhsm_message(self, ud):
        m = self.byz.get("signer_header", b"POWHSM:5.4::") + self.byz.get("platform", b"sgx") + \
            ud + self.byz.get("keys_hash", self.keys_hash()) + self.best_block + self.last_tx + \
            (0).to_bytes(8, "big") + self.byz.get("signer_tail", b"")
        cut = self.byz.get("signer_cut", 0)
        return m[:len(m) - cut] if cut else m

    def _signer_attestation(self, apdu):
        if len(apdu) < 3:
            raise _SW(0x6A01)
        ins, op = apdu[1], apdu[2]
        if op == 0x01:
            if len(apdu) - 3 != 32 or self.quote_builder is None:
                raise _SW(0x6A01)
            msg = self.powhsm_message(bytes(apdu[3:]))
            env = self.quote_builder(msg)
            self.att_state = {"msg": msg, "env": env}
            # for SGX the "signature" returned here is not used by the tooling
            return (bytes([CLA, ins, op]) + hashlib.sha256(env).digest(), SW_OK)
        if self.att_state is None:
            raise _SW(0x6A01)
        if op in (0x02, 0x04):
            if len(apdu) != 4:
                raise _SW(0x6A01)
            buf = self.att_state["msg"] if op == 0x02 else self.att_state["env"]
            ps = self.page
            npages = max(1, (len(buf) + ps - 1) // ps)
            page = apdu[3]
            if page >= npages:
                raise _SW(0x6A01)
            chunk = buf[page * ps:(page + 1) * ps]
            return (bytes([CLA, ins, op, 1 if page < npages - 1 else 0]) + chunk, SW_OK)
        if op == 0x03:
            return (bytes([CLA, ins, op]) + hashlib.sha256(b"mrenclave" + self.seed).digest(), SW_OK)
        raise _SW(0x6A01)
