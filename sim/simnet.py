"""In-memory client network under the real socketserver: a fake `socket` module
(listener + connection objects) and a fake selector class, all blocking through
the kernel's yield points."""
import socket as _real_socket

_NET = None


def set_net(n):
    global _NET
    _NET = n


class Conn:
    """One TCP connection; two byte queues and close flags."""

    def __init__(self, net, cid):
        self.net = net
        self.cid = cid
        self.c2s = bytearray()
        self.s2c = bytearray()
        self.client_closed = False        # client will send no more (FIN)
        self.client_reset = False         # client gone: writes fail
        self.server_closed = False
        self.server_shutdown_wr = False
        self.accepted_by = None
        self.reader = None                # task that read the request line (C12 tagging)


class ServerSideSocket:
    def __init__(self, conn):
        self.conn = conn
        self._closed = False
        # an accepted socket is born with the process-wide default time-out
        conn.timeout = _real_socket.getdefaulttimeout()

    def makefile(self, mode="rb", bufsize=-1):
        return _RFile(self.conn)

    def sendall(self, data):
        net = self.conn.net
        net.kernel.yield_point("sendall")
        if self.conn.client_reset:
            net.log.ev("net", "sendall-broken", self.conn.cid)
            raise BrokenPipeError(32, "Broken pipe")
        self.conn.s2c += bytes(data)
        net.log.ev("net", "s2c", self.conn.cid, bytes(data))

    def send(self, data):
        self.sendall(data)
        return len(data)

    def shutdown(self, how):
        self.conn.server_shutdown_wr = True

    def close(self):
        self._closed = True
        self.conn.server_closed = True
        self.conn.net.log.ev("net", "server-close", self.conn.cid)

    def settimeout(self, t):
        self.conn.timeout = t

    def gettimeout(self):
        return getattr(self.conn, "timeout", None)

    def setsockopt(self, *a):
        pass

    def fileno(self):
        return 1000 + self.conn.cid

    def getpeername(self):
        return ("127.0.0.1", 40000 + self.conn.cid)


class _RFile:
    def __init__(self, conn):
        self.conn = conn
        self.closed = False

    def readline(self, limit=-1):
        conn = self.conn
        net = conn.net
        ok = net.kernel.block(lambda: b"\n" in conn.c2s or conn.client_closed or conn.client_reset,
                              getattr(conn, "timeout", None), "readline")
        if not ok:
            net.log.ev("net", "readline-timeout", conn.cid)
            raise _real_socket.timeout("timed out")
        if conn.client_reset and b"\n" not in conn.c2s:
            raise ConnectionResetError(104, "Connection reset by peer")
        i = conn.c2s.find(b"\n")
        if i < 0:
            line = bytes(conn.c2s)
            del conn.c2s[:]
        else:
            line = bytes(conn.c2s[:i + 1])
            del conn.c2s[:i + 1]
        cur = net.kernel.current
        if cur is not None:
            cur.last_line = (conn.cid, line)
        conn.reader = cur.name if cur else None
        net.log.ev("net", "readline", conn.cid, line[:64], len(line))
        return line

    def read(self, n=-1):
        return self.readline()

    def close(self):
        self.closed = True

    def flush(self):
        pass


class ListenSocket:
    def __init__(self, net, family=None, type_=None):
        self.net = net
        self.bound = None
        self.listening = False
        self.closed = False

    def setsockopt(self, *a):
        pass

    def bind(self, addr):
        self.net.kernel.yield_point("bind")
        if self.net.bind_error:
            raise OSError(98, "Address already in use")
        self.bound = addr

    def getsockname(self):
        return self.bound

    def listen(self, backlog=5):
        self.listening = True
        self.net.listener = self
        self.net.log.ev("net", "listen")

    def fileno(self):
        return 999

    def gettimeout(self):
        return None

    def settimeout(self, t):
        pass

    def pending(self):
        return bool(self.net.backlog)

    def accept(self):
        net = self.net
        net.kernel.yield_point("accept")
        if not net.backlog:
            raise BlockingIOError(11, "Resource temporarily unavailable")
        # which queued connection is accepted first is the network's choice
        i = net.ch.draw(len(net.backlog), "accept.order") if len(net.backlog) > 1 else 0
        conn = net.backlog.pop(i)
        cur = net.kernel.current
        conn.accepted_by = cur.name if cur else None
        net.accept_order.append((conn.cid, len(net.backlog)))
        net.log.ev("net", "accept", conn.cid, len(net.backlog))
        return ServerSideSocket(conn), ("127.0.0.1", 40000 + conn.cid)

    def close(self):
        self.closed = True
        self.listening = False
        if self.net.listener is self:
            self.net.listener = None
        # connections still waiting in the accept queue die with the listener (the peer sees a
        # reset); they are not handed to whoever listens on the port next
        for conn in self.net.backlog:
            conn.server_closed = True
        del self.net.backlog[:]
        self.net.log.ev("net", "listener-close")

    def shutdown(self, how):
        pass


class FakeSelector:
    def __init__(self):
        self.obj = None

    def __enter__(self):
        return self

    def __exit__(self, *a):
        return False

    def register(self, fileobj, events, data=None):
        self.obj = fileobj

    def unregister(self, fileobj):
        self.obj = None

    def select(self, timeout=None):
        net = _NET
        ok = net.kernel.block(lambda: bool(net.backlog), timeout, "select")
        return [(self.obj, 1)] if ok else []

    def close(self):
        pass


class SocketModuleShim:
    """Stands in for the `socket` module inside socketserver."""
    AF_INET = _real_socket.AF_INET
    SOCK_STREAM = _real_socket.SOCK_STREAM
    SOCK_DGRAM = _real_socket.SOCK_DGRAM
    SOL_SOCKET = _real_socket.SOL_SOCKET
    SO_REUSEADDR = _real_socket.SO_REUSEADDR
    SO_REUSEPORT = getattr(_real_socket, "SO_REUSEPORT", 15)
    SHUT_WR = _real_socket.SHUT_WR
    SHUT_RD = _real_socket.SHUT_RD
    SHUT_RDWR = _real_socket.SHUT_RDWR
    IPPROTO_TCP = _real_socket.IPPROTO_TCP
    TCP_NODELAY = _real_socket.TCP_NODELAY
    error = OSError
    timeout = TimeoutError

    @staticmethod
    def socket(family=None, type_=None, *a):
        return ListenSocket(_NET, family, type_)

    @staticmethod
    def getfqdn(host=""):
        return host or "localhost"


class ClientConn:
    """Client-side handle used by client tasks."""

    def __init__(self, conn):
        self.conn = conn

    def send(self, data):
        net = self.conn.net
        net.kernel.yield_point("client.send")
        self.conn.c2s += data
        net.log.ev("net", "c2s", self.conn.cid, data[:64], len(data))

    def recv_line(self, max_wait=None):
        """Blocks until a full line, EOF (server closed) or `max_wait` virtual seconds.
        Returns (bytes_received_so_far, eof)."""
        conn = self.conn
        net = conn.net
        net.kernel.block(lambda: b"\n" in conn.s2c or conn.server_closed, max_wait, "client.recv")
        return bytes(conn.s2c), conn.server_closed

    def drain(self):
        """Everything the server wrote until it closed the connection."""
        conn = self.conn
        # EOF for the client = the server closed, or shut down its sending side; a client that reads
        # to EOF then closes its own end
        conn.net.kernel.block(lambda: conn.server_closed or conn.server_shutdown_wr, None,
                              "client.drain")
        conn.client_closed = True
        return bytes(conn.s2c)

    def half_close(self):
        self.conn.net.kernel.yield_point("client.fin")
        self.conn.client_closed = True

    def reset(self):
        self.conn.net.kernel.yield_point("client.rst")
        self.conn.client_reset = True
        self.conn.client_closed = True
        self.conn.net.log.ev("net", "client-reset", self.conn.cid)


class SimNet:
    def __init__(self, kernel, ch, log):
        self.kernel = kernel
        self.ch = ch
        self.log = log
        self.listener = None
        self.backlog = []
        self.accept_order = []
        self.conns = []
        self.bind_error = False
        self.refused = 0

    def connect(self):
        """Called by client tasks. Returns ClientConn or None (refused)."""
        self.kernel.yield_point("connect")
        if self.listener is None or not self.listener.listening:
            self.refused += 1
            self.log.ev("net", "refused")
            return None
        conn = Conn(self, len(self.conns))
        self.conns.append(conn)
        self.backlog.append(conn)
        self.log.ev("net", "connect", conn.cid)
        return ClientConn(conn)
