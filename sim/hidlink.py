"""Simulated USB-HID link under the *real* ledgerblue transport.

`FakeHid` replaces the module attribute `ledgerblue.comm.hid` (and
`ledger.hsm2dongle.hid`).  The real `getDongle`, `HIDDongleHIDAPI.exchange`,
`wrapCommandAPDU` / `unwrapResponseAPDU`, `waitFirstResponse` and the real
status-word -> CommException conversion keep running; only the kernel HID
device is simulated.  Framing in the device direction uses ledgerblue's own
functions the other way round.

Fault kinds (decided per exchange by `fault_fn(index, apdu)`):
  write_err        hid write returns -1        -> BaseException("Error while writing")
  read_err_before  read raises OSError("read error"), device never saw the APDU
  read_err_after   idem, but the device processed the APDU (response lost)
  timeout_before   device silent until the timeout, never saw the APDU
  timeout_after    device processed the APDU but the answer never arrives
  timeout_late     device processed the APDU, the answer arrives after the host gave up and stays
                   queued: the next exchange on the same handle reads it first
  ("sw", w)        device answers with status word w instead of processing
  ("raw", data, w) device answers data||w instead of processing
  ("wrongop", op)  device processes, answer has its opcode byte replaced
  ("swdata", w)    device processes and answers normally but with status word w
"""
from ledgerblue.ledgerWrapper import wrapCommandAPDU, unwrapResponseAPDU

from sim.kernel import check_foreign as _check_foreign

CHANNEL = 0x0101
LEDGER_VID = 0x2C97


class LinkStats:
    def __init__(self):
        self.exchanges = 0
        self.faults = {}

    def fault(self, kind):
        self.faults[kind] = self.faults.get(kind, 0) + 1


class HidLink:
    def __init__(self, device, clock, log, fault_fn=None, crash_check=None):
        self.device = device          # object with present(), exchange(apdu), on_open(), on_close()
        self.clock = clock
        self.log = log
        self.fault_fn = fault_fn      # (index, apdu) -> kind | None
        self.crash_check = crash_check  # callable() raising SimCrash if fenced
        self.index = 0                # exchange counter (0-based, per run)
        self.stats = LinkStats()
        self.open_fail = 0            # next N open_path calls raise OSError
        self.handles = 0
        self.open_handle = None
        self.transport = []           # ordered transport-level log (C11 oracle)
        self.wait = None              # kernel hook: wait(d) virtual seconds (threaded world)
        self.xchg_yield = None        # kernel hook: pre-emption point (request delivered / response delivered)
        self.latency_fn = None        # (apdu) -> virtual seconds before the answer is readable

    # -- seam helpers
    def _seam(self):
        _check_foreign()
        if self.crash_check:
            self.crash_check()

    def tlog(self, *ev):
        self.transport.append(ev)
        self.log.ev("link", *ev)

    # -- hid module API
    def hidapi_exit(self):
        """hid.hidapi_exit(): the library forgets what it knew about the bus."""
        self.tlog("hidapi_exit")
        self._bus_view = None

    def enumerate(self, vid=0, pid=0):
        self._seam()
        present = self.device.present()
        if getattr(self, "stale_enum", False):
            # the environment the repository documents in HSM2Dongle.disconnect (docker): the library
            # looks at the bus once after its initialisation and does not notice a re-plug until
            # hidapi_exit() resets it
            if getattr(self, "_bus_view", None) is None:
                self._bus_view = present
            present = self._bus_view
        self.tlog("enumerate", int(present))
        if not present:
            return []
        return [{"vendor_id": LEDGER_VID, "interface_number": 0,
                 "usage_page": 0xFFA0, "path": b"sim-ledger"}]


def sever(link):
    """The device behind the open handle has been unplugged (another one may be plugged in): the
    handle is dead (write fails, read error); a new open reaches whatever is plugged in now."""
    h = getattr(link, "open_handle", None)
    if h is not None:
        h.opened = False
        link.open_handle = None
    link.tlog("severed")


class FakeHidDevice:
    def __init__(self, link):
        self.link = link
        self.opened = False
        self.wbuf = bytearray()
        self.rqueue = []
        self.pending = None      # fault pending for the read side
        self.ready_at = 0.0
        self.first_read_done = False
        self.nonblocking = False

    def open_path(self, path):
        link = self.link
        link._seam()
        if link.open_fail > 0:
            link.open_fail -= 1
            link.stats.fault("open_fail")
            link.tlog("open_fail")
            raise OSError("open failed")
        if not link.device.present():
            link.tlog("open_fail_absent")
            raise OSError("open failed")
        self.opened = True
        self.host_closed = False
        self.rqueue, self.stale_frames, self.lagging = [], [], False     # a fresh handle: empty queue
        link.handles += 1
        link.open_handle = self
        link.tlog("open")
        link.device.on_open()

    def set_nonblocking(self, v):
        self.nonblocking = bool(v)
        return 0

    def close(self):
        link = self.link
        link._seam()
        self.host_closed = True       # cython-hidapi: a handle the host closed (or never opened)
        if self.opened:               # raises ValueError("not open") on use - unlike a handle whose
            self.opened = False       # device went away (`opened` cleared by the scenario: write fails, read error)
            if link.open_handle is self:
                link.open_handle = None
            link.tlog("close")
            link.device.on_close()

    def write(self, data):
        link = self.link
        link._seam()
        if getattr(self, "host_closed", True):
            raise ValueError("not open")
        if not self.opened:
            return -1
        data = bytes(data)
        # first byte is the report id
        self.wbuf += data[1:]
        apdu = unwrapResponseAPDU(CHANNEL, bytearray(self.wbuf), 64)
        if apdu is None:
            return len(data)
        # (exchange() sends all packets of an APDU before reading; the APDU is
        # complete exactly at its last packet)
        expected_len = len(wrapCommandAPDU(CHANNEL, bytes(apdu), 64))
        if len(self.wbuf) < expected_len:
            return len(data)
        self.wbuf = bytearray()
        apdu = bytes(apdu)
        if link.xchg_yield is not None:
            link.xchg_yield("apdu-delivered")
        idx = link.index
        link.index += 1
        link.stats.exchanges += 1
        kind = link.fault_fn(idx, apdu) if link.fault_fn else None
        # an answer that came in after the host had stopped waiting stays queued on the pipe (nothing
        # flushes it): the next exchange reads it first, and its own answer waits behind it
        carry = getattr(self, "stale_frames", [])
        self.stale_frames = []
        leftover = list(self.rqueue) if getattr(self, "lagging", False) else []
        if carry:
            self.lagging = True
        self.rqueue = []
        self.pending = None
        if kind == "write_err":
            link.stats.fault(kind)
            link.tlog("xchg", idx, apdu, "write_err")
            return -1
        if not link.device.present():
            # device vanished: nothing will ever come back
            link.tlog("xchg", idx, apdu, "absent")
            self.pending = "read_err"
            return len(data)
        if kind in ("read_err_before", "timeout_before"):
            link.stats.fault(kind)
            link.tlog("xchg", idx, apdu, kind)
            self.pending = "read_err" if kind.startswith("read_err") else "timeout"
            return len(data)
        if isinstance(kind, tuple) and kind[0] == "sw":
            link.stats.fault("sw")
            resp, sw = b"", kind[1]
            link.device.on_injected(apdu, sw)
        elif isinstance(kind, tuple) and kind[0] == "raw":
            link.stats.fault("raw")
            resp, sw = kind[1], kind[2]
            link.device.on_injected(apdu, sw)
        else:
            r = link.device.exchange(apdu)
            if isinstance(kind, tuple) and kind[0] == "wrongop" and r is not None:
                # a well-formed answer of the right length with an unexpected opcode
                link.stats.fault("wrongop")
                d = bytearray(r[0])
                if len(d) > 2:
                    d[2] = kind[1]
                if len(d) == 3:
                    d.append(0x20)    # keep it well-formed for ops that carry a length
                r = (bytes(d), r[1])
            if isinstance(kind, tuple) and kind[0] == "alter" and r is not None:
                # the device's answer is altered in transit by kind[1](bytes) -> bytes
                link.stats.fault("alter")
                r = (bytes(kind[1](bytes(r[0]))), r[1])
            if isinstance(kind, tuple) and kind[0] == "swdata" and r is not None:
                # status words ledgerblue does not treat as errors (9000/61xx/6Cxx)
                link.stats.fault("swdata")
                r = (r[0], kind[1])
            if r is None:
                # device does not answer (e.g. it left the bus after EXIT)
                how = link.device.silence_kind()
                if kind in ("timeout_before", "timeout_after"):
                    link.stats.fault(kind)
                    how = "timeout"
                elif kind in ("read_err_before", "read_err_after"):
                    link.stats.fault(kind)
                    how = "read_err"
                link.tlog("xchg", idx, apdu, "noanswer", how)
                self.pending = how
                return len(data)
            resp, sw = r
        if kind in ("read_err_after", "timeout_after"):
            link.stats.fault(kind)
            link.tlog("xchg", idx, apdu, kind, resp, "%04x" % sw)
            self.pending = "read_err" if kind.startswith("read_err") else "timeout"
            return len(data)
        if kind == "timeout_late":
            link.stats.fault(kind)
            link.tlog("xchg", idx, apdu, kind, resp, "%04x" % sw)
            framed = wrapCommandAPDU(CHANNEL, bytes(resp) + bytes([sw >> 8, sw & 0xff]), 64)
            self.stale_frames = leftover + carry + [list(framed[i:i + 64]) for i in range(0, len(framed), 64)]
            self.pending = "timeout"
            return len(data)
        link.tlog("xchg", idx, apdu, resp, "%04x" % sw)
        framed = wrapCommandAPDU(CHANNEL, bytes(resp) + bytes([sw >> 8, sw & 0xff]), 64)
        self.rqueue = leftover + carry + [list(framed[i:i + 64]) for i in range(0, len(framed), 64)]
        self.first_read_done = False
        self.ready_at = link.clock.now + (link.latency_fn(apdu) if link.latency_fn else 0.0)
        return len(data)

    def read(self, n, timeout_ms=0):
        link = self.link
        link._seam()
        if getattr(self, "host_closed", True):
            raise ValueError("not open")
        if not self.opened:
            raise OSError("read error")
        if self.rqueue:
            if link.wait is not None and self.ready_at > link.clock.now:
                link.wait(self.ready_at - link.clock.now)
            elif link.xchg_yield is not None and not self.first_read_done:
                link.xchg_yield("response-delivered")
            self.first_read_done = True
            return self.rqueue.pop(0)
        if self.pending == "read_err":
            self.pending = None
            raise OSError("read error")
        # nothing to deliver: the caller polls until its own deadline; waiting is
        # simulated by letting virtual time pass (nothing else can happen meanwhile
        # in a single-task world; in the threaded world the kernel's hook yields)
        if link.wait is not None:
            link.wait(0.5)
        else:
            link.clock.advance(0.5)
        return []


class FakeHid:
    """The object installed as module `hid`."""

    def __init__(self, link):
        self.link = link

    def enumerate(self, vid=0, pid=0):
        return self.link.enumerate(vid, pid)

    def device(self):
        return FakeHidDevice(self.link)

    def hidapi_exit(self):
        self.link.tlog("hidapi_exit")
