"""Assembly of one simulated run at protocol level (no client network, one
task): real HSM2Dongle / HSM2ProtocolLedger / HSM1ProtocolLedger /
_RequestHandler + real ledgerblue HID transport, over the simulated link,
device and clock.

The seam objects are installed once per process (module attributes of the
code under test are replaced by dispatchers that forward to the *current*
world), so that a run costs no patching.
"""
import io
import sys

from sim import boot
boot.boot()

import ledgerblue.comm as _lb_comm                    # noqa: E402
import ledger.hsm2dongle as _hsm2dongle_mod           # noqa: E402
import ledger.protocol as _ledger_protocol_mod        # noqa: E402
import ledger.protocol_v1 as _ledger_protocol_v1_mod  # noqa: E402
import comm.server as _server_mod                     # noqa: E402

from sim.choices import EventLog                      # noqa: E402
from sim.clock import Clock                           # noqa: E402
from sim.hidlink import HidLink, FakeHidDevice        # noqa: E402
from sim.devices.ledger import LedgerDevice           # noqa: E402

_CURRENT = None
from sim.kernel import check_foreign as _check_foreign   # noqa: E402


class SimCrash(BaseException):
    """Raised by every seam once the process is fenced (crashed)."""


class _HidDispatch:
    def enumerate(self, vid=0, pid=0):
        _check_foreign()
        return _CURRENT.link.enumerate(vid, pid)

    def device(self):
        _check_foreign()
        return FakeHidDevice(_CURRENT.link)

    def hidapi_exit(self):
        _check_foreign()
        link = _CURRENT.link
        if hasattr(link, "hidapi_exit"):
            link.hidapi_exit()
        else:
            link.tlog("hidapi_exit")


class _TimeDispatch:
    def time(self):
        return _CURRENT.clock.time()

    def monotonic(self):
        return _CURRENT.clock.monotonic()

    def sleep(self, d):
        _check_foreign()
        w = _CURRENT
        if w.crash_check:
            w.crash_check()
        if w.sleep_hook is not None:
            return w.sleep_hook(d)
        return w.clock.sleep(d)


_installed = False


def install_seams():
    global _installed
    if _installed:
        return
    _installed = True
    hidd = _HidDispatch()
    timed = _TimeDispatch()
    _lb_comm.hid = hidd
    _lb_comm.time = timed
    _hsm2dongle_mod.hid = hidd
    _ledger_protocol_mod.time = timed
    # nothing from the environment may steer ledgerblue to another transport
    for name in ("APDUGEN", "U2FKEY", "MCUPROXY", "TCP_PROXY", "NFC_PROXY",
                 "BLE_PROXY", "PCSC"):
        setattr(_lb_comm, name, None)


class FakePin:
    """Stand-in for FileBasedPin where the PIN file is not the subject."""

    def __init__(self, pin=b"1234567a", needs_change=False):
        self._pin = pin
        self._needs = needs_change

    def get_pin(self):
        return self._pin

    def needs_change(self):
        return self._needs


def real_pin(pin=b"1234567a", needs_change=False):
    """The manager's own pin object (ledger.pin.FileBasedPin, every method of it) holding `pin` as if
    it had been loaded from its file; the file itself is not the subject in this world."""
    import logging
    from ledger.pin import FileBasedPin
    p = FileBasedPin.__new__(FileBasedPin)
    p.logger = logging.getLogger("pin")
    p._path = "/nonexistent/pin.txt"
    p._pin = pin
    p._needs_change = needs_change
    p._changing = False
    p._new_pin = None
    return p


class World:
    def __init__(self, ch, device_cfg=None, v1=False, fault_fn=None, pin=None,
                 device_cls=LedgerDevice, keep_events=0, seed=b"seed"):
        global _CURRENT
        install_seams()
        import socket as _socket
        _socket.setdefaulttimeout(None)      # process-wide state a previous run may have left behind
        self.ch = ch
        self.log = EventLog(keep=keep_events)
        self.clock = Clock(log=self.log)
        self.device = device_cls(ch, self.clock, self.log, seed=seed, cfg=device_cfg)
        self.crash_check = None
        self.sleep_hook = None
        self.link = HidLink(self.device, self.clock, self.log, fault_fn=fault_fn)
        self.v1 = v1
        self.pin = pin if pin is not None else real_pin()
        from comm.platform import Platform
        Platform.set(Platform.LEDGER)        # what manager_ledger.py does before anything else
        self.dongle = _hsm2dongle_mod.HSM2Dongle(False)
        if v1:
            self.protocol = _ledger_protocol_v1_mod.HSM1ProtocolLedger(self.pin, self.dongle)
        else:
            self.protocol = _ledger_protocol_mod.HSM2ProtocolLedger(self.pin, self.dongle)
        self.handler = _server_mod._RequestHandler(self.protocol, _NullLogger())
        self.shutdown_requested = False
        self.handler_exceptions = []
        _CURRENT = self

    def activate(self):
        global _CURRENT
        _CURRENT = self

    # -- manager life cycle
    def bring_up(self):
        self.activate()
        self.protocol.initialize_device()

    def request_line(self, line):
        """Feed one raw request line through the real _RequestHandler.
        Returns (reply_bytes, exception_or_None)."""
        self.activate()
        rfile = io.BytesIO(line if line.endswith(b"\n") else line + b"\n")
        wfile = io.BytesIO()
        exc = None
        self.log.ev("req", line)
        try:
            self.handler.handle("sim-client", rfile, wfile)
        except (_server_mod.RequestHandlerError, _server_mod.RequestHandlerShutdown) as e:
            exc = e
            self.shutdown_requested = True
        except Exception as e:     # would be logged as UNKNOWN by the TCP layer
            exc = e
        except BaseException as e:  # not even the TCP layer catches these: the manager goes down
            from sim import kernel as _kernel
            if isinstance(e, (SimCrash, _kernel.SimCrash)):
                raise
            exc = e
            self.shutdown_requested = True
        out = wfile.getvalue()
        self.log.ev("rep", out, type(exc).__name__ if exc else "")
        if exc is not None:
            self.handler_exceptions.append(exc)
        return out, exc

    def request(self, obj):
        import json
        out, exc = self.request_line(json.dumps(obj).encode())
        try:
            rep = json.loads(out.decode())
        except Exception:
            rep = None
        return rep, exc


class _NullLogger:
    def _n(self, *a, **k):
        pass
    debug = info = warning = error = critical = fatal = exception = _n
