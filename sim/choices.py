"""One integer decides everything.

Every nondeterministic decision of a simulated run (generated workload, peer
policy, fault positions, schedule) is a draw from a `Choices` object.  In
generation mode the draws come from `random.Random(run_seed)` and are recorded;
in replay mode the recorded sequence is fed back.  A replay file is therefore
(property, seed, choice sequence); shrinking operates on the sequence (delete
spans, zero / halve values) and is generic for every check - the idea of
Hypothesis' internal shrinker, with an explicit, portable replay unit.

By convention draw value 0 is the *simplest* alternative at every site
(no fault, fewest elements, largest chunk, first runnable task), so that
shrinking converges on a minimal scenario.
"""
import hashlib
import random


def derive_seed(*parts):
    h = hashlib.sha256()
    for p in parts:
        h.update(str(p).encode())
        h.update(b"\x00")
    return int.from_bytes(h.digest()[:8], "big")


class Choices:
    def __init__(self, seed=None, prescribed=None):
        self.seed = seed
        self.rng = random.Random(seed) if seed is not None else None
        self.prescribed = list(prescribed) if prescribed is not None else None
        self.pos = 0
        self.record = []      # list of ints (values drawn)
        self.labels = []      # parallel list of labels (diagnostics only)
        self.overrun = False

    # -- primitive
    def draw(self, n, label=""):
        """Integer in [0, n).  n <= 1 draws nothing."""
        if n <= 1:
            return 0
        if self.prescribed is not None:
            if self.pos < len(self.prescribed):
                v = self.prescribed[self.pos]
                if v >= n:
                    v = v % n
                if v < 0:
                    v = 0
            else:
                v = 0
                self.overrun = True
            self.pos += 1
        else:
            v = self.rng.randrange(n)
        self.record.append(v)
        self.labels.append(label)
        return v

    def slot(self, n, label=""):
        """Integer in [0, n) that always consumes exactly one recorded value, also for n == 1
        (positions of enumerated prefixes must not depend on how many alternatives a site has)."""
        v = self.draw(max(n, 2), label)
        return v % n if n > 0 else 0

    # -- helpers (all built on draw)
    def chance(self, p, label=""):
        """True with probability ~p; value 0 (=False) is the simple case."""
        if p <= 0:
            return False
        den = 1000
        num = max(1, int(p * den))
        v = self.draw(den, label)
        # map so that draw value 0 -> False
        return v >= den - num

    def pick(self, seq, label=""):
        return seq[self.draw(len(seq), label)]

    def weighted(self, pairs, label=""):
        """pairs: [(weight, value), ...]; first entry is the simplest."""
        total = sum(w for w, _ in pairs)
        v = self.draw(total, label)
        for w, val in pairs:
            if v < w:
                return val
            v -= w
        return pairs[-1][1]

    def int_between(self, lo, hi, label=""):
        return lo + self.draw(hi - lo + 1, label)

    def bytes(self, n, label=""):
        # one draw per 6 bytes keeps sequences short while staying shrinkable
        out = bytearray()
        while len(out) < n:
            k = min(6, n - len(out))
            v = self.draw(1 << (8 * k), label)
            out += v.to_bytes(k, "big")
        return bytes(out)

    def shuffle(self, lst, label=""):
        lst = list(lst)
        for i in range(len(lst) - 1, 0, -1):
            j = i - self.draw(i + 1, label)   # 0 keeps position
            lst[i], lst[j] = lst[j], lst[i]
        return lst


class EventLog:
    """Digest of every seam event of a run (sequence-numbered); used by the
    determinism self-test and by replay ("same digest" = same execution)."""

    def __init__(self, keep=0):
        self.h = hashlib.sha256()
        self.n = 0
        self.keep = keep
        self.tail = []

    def ev(self, *parts):
        self.n += 1
        s = "%d|%s" % (self.n, "|".join(
            p.hex() if isinstance(p, (bytes, bytearray)) else str(p) for p in parts))
        self.h.update(s.encode())
        self.h.update(b"\n")
        if self.keep:
            self.tail.append(s if len(s) < 300 else s[:300] + "...")
            if len(self.tail) > self.keep:
                del self.tail[0]

    def digest(self):
        return self.h.hexdigest()[:24]
