"""In-memory seeded mutants for the sensitivity self-tests (never edits /repo):
re-compile one function / method of the code under test with a textual change."""
import inspect
import re
import sys
import textwrap


def patch_function(owner, name, old, new, count=1):
    """owner: class or module.  Replaces `old` by `new` in the source of
    owner.name, compiles it in the defining module's globals, installs it and
    returns an undo callable."""
    orig = owner.__dict__[name] if isinstance(owner, type) else getattr(owner, name)
    fn = orig
    wrapper = None
    if isinstance(fn, (staticmethod, classmethod)):
        wrapper = type(fn)
        fn = fn.__func__
    elif isinstance(fn, property):
        wrapper = property
        fn = fn.fget
    src = textwrap.dedent(inspect.getsource(fn))
    if wrapper is property:
        src = "\n".join(ln for ln in src.split("\n") if ln.strip() != "@property")
    if "\n" in old:
        # multi-line anchor: match consecutive lines by stripped content, re-indent the
        # replacement lines with the indentation of the first matched line
        olines = [ln.strip() for ln in old.split("\n")]
        slines = src.split("\n")
        nlines = new.split("\n")
        done = 0
        i = 0
        out = []
        while i < len(slines):
            window = [ln.strip() for ln in slines[i:i + len(olines)]]
            if done < count and window == olines:
                indent = slines[i][:len(slines[i]) - len(slines[i].lstrip())]
                base = None
                for j, nl in enumerate(nlines):
                    if j < len(olines):
                        ind = slines[i + j][:len(slines[i + j]) - len(slines[i + j].lstrip())]
                    else:
                        ind = indent
                    out.append(ind + nl.strip() if nl.strip() else "")
                i += len(olines)
                done += 1
            else:
                out.append(slines[i])
                i += 1
        if not done:
            raise RuntimeError("mutant anchor not found in %s.%s: %r" % (owner, name, old))
        src2 = "\n".join(out)
    else:
        pat = r"\s+".join(re.escape(p) for p in old.split())
        if not re.search(pat, src):
            raise RuntimeError("mutant anchor not found in %s.%s: %r" % (owner, name, old))
        src2 = re.sub(pat, lambda m: new, src, count=count)
    if isinstance(owner, type):
        # zero-argument super() needs the class cell, which a re-compiled function lacks
        src2 = src2.replace("super()", "super(%s, self)" % owner.__name__)
    modname = owner.__module__ if isinstance(owner, type) else owner.__name__
    g = sys.modules[modname].__dict__
    ns = {}
    exec(compile(src2, "<mutant %s.%s>" % (modname, name), "exec"), g, ns)
    newfn = ns[fn.__name__]
    if wrapper is not None:
        newfn = wrapper(newfn)
    setattr(owner, name, newfn)
    rebound = []
    if not isinstance(owner, type):
        # `from x import f` copies the binding: rebind every importer too
        for m in list(sys.modules.values()):
            d = getattr(m, "__dict__", None)
            if d is not None and m is not owner and d.get(name) is orig:
                d[name] = newfn
                rebound.append(m)

    def undo():
        setattr(owner, name, orig)
        for m in rebound:
            m.__dict__[name] = orig
    return undo


def set_attr(owner, name, value):
    orig = getattr(owner, name)
    setattr(owner, name, value)

    def undo():
        setattr(owner, name, orig)
    return undo
