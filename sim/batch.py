"""Batch driver shared by all checks: seeded runs over 16 processes, shrinking,
replay files, known-findings matching, evidence, exit codes.

A check module provides:
  PROPERTY, LEVEL ("exploration" | "fault_enumeration"), RULE (str),
  TIERS = {"quick": {"runs": n, "wall": s}, "thorough": {...}},
  run_one(ch, cfg) -> dict with keys
        violations: [(signature, detail), ...]
        digest: str                 (event-log digest)
        state: hashable / str       (abstract state tuple, for distinct counting)
        nontrivial: bool
        faults: {kind: count}       (faults that actually FIRED)
        probes: {name: count}
        sim_s: float                (simulated seconds)
        sample: json-able           (the scenario written out)
        sched: str (optional)       (schedule signature)
  optional: ENUM(tier) -> list of prescribed choice prefixes (exhaustive part),
            MUTANTS = {name: fn() -> undo}, COMPONENTS = {"real": [...], "stub": [...]},
            ASSUMPTIONS = [...], SIM_CFG(tier) -> cfg dict.
Exit codes: 0 held (KNOWN-FINDING lines allowed), 1 VIOLATION, 2 harness failure.
"""
import argparse
import faulthandler
import json
import multiprocessing
import os
import sys
import time
import traceback
from concurrent.futures import ProcessPoolExecutor

from sim import boot
from sim.choices import Choices, derive_seed

VERIF = boot.VERIF_DIR
EVIDENCE_DIR = os.path.join(VERIF, "evidence")
REPLAY_DIR = os.path.join(VERIF, "out", "replays")
KNOWN_FINDINGS = os.path.join(VERIF, "known_findings.txt")
NWORKERS = int(os.environ.get("VERIF_WORKERS", "16"))


class HarnessError(Exception):
    pass


_SHARED = None


def load_known_findings(prop):
    out = {}
    try:
        with open(KNOWN_FINDINGS) as f:
            for line in f:
                line = line.strip()
                if not line.startswith("finding:"):
                    continue
                parts = line.split(None, 3)
                # finding: property=<id> signature=<sig> <text>
                kv = dict(p.split("=", 1) for p in parts[1:3])
                if kv.get("property") == prop:
                    out[kv["signature"]] = parts[3] if len(parts) > 3 else ""
    except FileNotFoundError:
        pass
    return out


# --------------------------------------------------------------------- one run

class RunDidNotReturn(BaseException):
    pass


RUN_WALL_S = int(os.environ.get("VERIF_RUN_WALL_S", "60"))


def run_guarded(mod, ch, cfg):
    """mod.run_one with the 'a simulated run is executing' flag up (see sim.boot), under a generous
    real-time limit: runs take milliseconds of real time whatever their simulated duration; one that is
    still going after RUN_WALL_S seconds is the code under test (or a model) spinning, which is
    reported as a violation of its own kind with the run's choices rather than killing the batch."""
    import signal
    import threading
    from sim import boot as _boot

    fired = []

    def _alarm(signum, frame):
        fired.append(1)
        signal.alarm(2)              # (the code under test may catch BaseException: insist)
        raise RunDidNotReturn()
    use_alarm = threading.current_thread() is threading.main_thread()
    if use_alarm:
        old = signal.signal(signal.SIGALRM, _alarm)
        signal.alarm(RUN_WALL_S)
    _boot.IN_RUN[0] += 1
    try:
        res = mod.run_one(ch, cfg)
        if fired:
            res["violations"] = list(res.get("violations") or []) + [(
                "liveness/run-did-not-return", "the run was still executing after %d s of real time and "
                "had to be interrupted" % RUN_WALL_S)]
        return res
    except RunDidNotReturn:
        return {"violations": [("liveness/run-did-not-return",
                                "the run was still executing after %d s of real time (last draws: %s)"
                                % (RUN_WALL_S, list(zip(ch.labels[-6:], ch.record[-6:]))))],
                "digest": "-", "state": ("did-not-return",), "nontrivial": True, "faults": {},
                "probes": {"did_not_return": 1}, "sim_s": 0.0, "sample": {}}
    finally:
        _boot.IN_RUN[0] -= 1
        if use_alarm:
            signal.alarm(0)
            signal.signal(signal.SIGALRM, old)


def execute(mod, cfg, seed=None, prescribed=None):
    ch = Choices(seed=seed, prescribed=prescribed)
    res = run_guarded(mod, ch, cfg)
    res["choices"] = ch.record
    res["labels"] = ch.labels
    return res


def _worker(args):
    modname, tier, base_seed, indices, cfg, wall_deadline, _ = args
    indices = _SHARED[indices]       # inherited through fork (holds the shared counter)
    faulthandler.enable()
    faulthandler.dump_traceback_later(max(60.0, wall_deadline - time.time() + 120.0), exit=True)
    import importlib
    mod = importlib.import_module(modname)
    agg = _new_agg()
    enum_items = None
    try:
        wk, nw, n_enum, n_runs, counter, chunk = indices

        def plan():
            # dynamic distribution: every run depends only on its index, so which
            # worker executes it does not matter for reproducibility
            total_items = n_enum + n_runs
            while True:
                with counter.get_lock():
                    start = counter.value
                    counter.value = start + chunk
                if start >= total_items:
                    return
                for j in range(start, min(start + chunk, total_items)):
                    yield ("e", j) if j < n_enum else j - n_enum
        for item in plan():
            if time.time() > wall_deadline:
                agg["wall_capped"] = True
                break
            if isinstance(item, tuple):      # enumerated prefix
                _, idx = item
                if enum_items is None:
                    enum_items = mod.ENUM(tier)
                prefix = enum_items[idx]
                seed = derive_seed(base_seed, mod.PROPERTY, "enum", idx)
                ch = _PrefixChoices(prefix, seed)
                t0 = time.perf_counter()
                res = run_guarded(mod, ch, cfg)
                _check_alignment(mod, ch, prefix, idx)
                res["choices"] = ch.record
                res["labels"] = ch.labels
                _fold(agg, res, ("enum", idx), time.perf_counter() - t0)
            else:
                seed = derive_seed(base_seed, mod.PROPERTY, item)
                t0 = time.perf_counter()
                res = execute(mod, cfg, seed=seed)
                _fold(agg, res, item, time.perf_counter() - t0)
    except BaseException:
        agg["harness_errors"].append(traceback.format_exc()[-3000:])
    faulthandler.cancel_dump_traceback_later()
    agg["states"] = sorted(agg["states"])
    agg["scheds"] = sorted(agg["scheds"])
    return agg


def _check_alignment(mod, ch, prefix, idx):
    """An enumerated prefix means what the check says only if its i-th value is consumed by the draw
    site it was written for (a site that does not draw shifts everything after it)."""
    exp = getattr(mod, "ENUM_LABELS", None)
    if not exp:
        return
    for j, e in enumerate(exp[:len(prefix)]):
        lab = ch.labels[j] if j < len(ch.labels) else None
        if not (lab == e or (isinstance(e, tuple) and lab in e)):
            raise HarnessError("enumerated case %d of %s misaligned: value %d consumed by %r, written "
                               "for %r (labels %s)" % (idx, mod.PROPERTY, j, lab, e, ch.labels[:len(prefix)]))


class _PrefixChoices(Choices):
    """Prescribed prefix, then PRNG."""

    def __init__(self, prefix, seed):
        super().__init__(seed=seed)
        self._prefix = list(prefix)

    def draw(self, n, label=""):
        if n <= 1:
            return 0
        if self._prefix:
            v = self._prefix.pop(0) % n
            self.record.append(v)
            self.labels.append(label)
            return v
        return super().draw(n, label)


def _new_agg():
    return {"runs": 0, "nontrivial": 0, "states": set(), "scheds": set(), "faults": {},
            "probes": {}, "sim_s": 0.0, "violations": [], "samples": [], "digests": [],
            "harness_errors": [], "run_s": 0.0, "wall_capped": False}


def _fold(agg, res, index, dt):
    agg["runs"] += 1
    agg["run_s"] += dt
    if res.get("nontrivial"):
        agg["nontrivial"] += 1
        agg["states"].add(str(res.get("state")))
    if res.get("sched") is not None:
        agg["scheds"].add(res["sched"])
    for k, v in (res.get("faults") or {}).items():
        agg["faults"][k] = agg["faults"].get(k, 0) + v
    for k, v in (res.get("probes") or {}).items():
        agg["probes"][k] = agg["probes"].get(k, 0) + v
    agg["sim_s"] += res.get("sim_s", 0.0)
    if len(agg["samples"]) < 2 and res.get("nontrivial"):
        agg["samples"].append(res.get("sample"))
    if (index[1] if isinstance(index, tuple) else index) < 64:
        agg["digests"].append((str(index), res.get("digest")))
    if res.get("violations"):
        sigs = [sg for sg, _ in res["violations"]]
        cnt = agg.setdefault("sig_counts", {})
        keep = False
        for sg in sigs:
            cnt[sg] = cnt.get(sg, 0) + 1
            if cnt[sg] <= 3:
                keep = True
        if keep and len(agg["violations"]) < 400:
            agg["violations"].append({"index": index, "violations": res["violations"],
                                      "choices": res["choices"], "digest": res.get("digest"),
                                      "sample": res.get("sample")})


def _merge(total, part):
    total["runs"] += part["runs"]
    total["nontrivial"] += part["nontrivial"]
    total["states"].update(part["states"])
    total["scheds"].update(part["scheds"])
    for k, v in part["faults"].items():
        total["faults"][k] = total["faults"].get(k, 0) + v
    for k, v in part["probes"].items():
        total["probes"][k] = total["probes"].get(k, 0) + v
    total["sim_s"] += part["sim_s"]
    total["run_s"] += part["run_s"]
    total["violations"].extend(part["violations"])
    tc = total.setdefault("sig_counts", {})
    for k, v in part.get("sig_counts", {}).items():
        tc[k] = tc.get(k, 0) + v
    total["samples"].extend(part["samples"])
    total["digests"].extend(part["digests"])
    total["harness_errors"].extend(part["harness_errors"])
    total["wall_capped"] = total["wall_capped"] or part["wall_capped"]


def run_batch(mod, tier, base_seed, runs=None, wall=None, nworkers=None):
    t = mod.TIERS[tier]
    runs = runs if runs is not None else t["runs"]
    wall = wall if wall is not None else t["wall"]
    nworkers = nworkers or (NWORKERS if "VERIF_WORKERS" in os.environ
                            else getattr(mod, "WORKERS", NWORKERS))
    cfg = mod.SIM_CFG(tier) if hasattr(mod, "SIM_CFG") else {}
    enum_items = mod.ENUM(tier) if hasattr(mod, "ENUM") else []
    n_items = len(enum_items) + runs
    deadline = time.time() + wall
    nworkers = max(1, min(nworkers, n_items))
    ctx = multiprocessing.get_context("fork")
    counter = ctx.Value("q", 0)
    chunk = max(1, min(64, n_items // (nworkers * 16)))
    shards = [(w, nworkers, len(enum_items), runs, counter, chunk) for w in range(nworkers)]
    total = _new_agg()
    try:
        with ProcessPoolExecutor(max_workers=nworkers, mp_context=ctx) as ex:
            global _SHARED
            _SHARED = shards
            futs = [ex.submit(_worker, (mod.__name__, tier, base_seed, w, cfg, deadline,
                                        None)) for w in range(nworkers)]
            for f in futs:
                part = f.result(timeout=wall + 300)
                part["states"] = set(part["states"])
                part["scheds"] = set(part["scheds"])
                _merge(total, part)
    except Exception as e:
        raise HarnessError("worker pool failed: %r" % (e,))
    total["enum"] = len(enum_items)
    total["planned"] = n_items
    return total, cfg


# --------------------------------------------------------------------- shrink

def signature_of(res):
    v = res.get("violations") or []
    return v[0][0] if v else None


def shrink(mod, cfg, choices, sig, budget_s=20.0, max_exec=600):
    """Generic choice-sequence minimisation keeping the same violation signature."""
    best = list(choices)
    t_end = time.time() + budget_s
    execs = [0]

    def ok(cand):
        if execs[0] >= max_exec or time.time() > t_end:
            return False
        execs[0] += 1
        try:
            r = execute(mod, cfg, prescribed=cand)
        except BaseException:
            return False
        return any(s == sig for s, _ in (r.get("violations") or []))

    # trim the unused tail first
    try:
        r = execute(mod, cfg, prescribed=best)
        used = len(r["choices"])
        if used < len(best) and any(s == sig for s, _ in r["violations"]):
            best = best[:used]
    except BaseException:
        pass
    improved = True
    while improved and time.time() < t_end and execs[0] < max_exec:
        improved = False
        # 1. zero large blocks, then delete spans
        for size in (32, 16, 8, 4, 2, 1):
            i = 0
            while i < len(best):
                cand = best[:i] + best[i + size:]
                if len(cand) < len(best) and ok(cand):
                    best = cand
                    improved = True
                    continue
                i += size
            if time.time() > t_end:
                break
        # 2. zero / reduce individual values
        for i in range(len(best)):
            if best[i] == 0:
                continue
            for v in (0, best[i] // 2, best[i] - 1):
                if v < best[i]:
                    cand = best[:i] + [v] + best[i + 1:]
                    if ok(cand):
                        best = cand
                        improved = True
                        break
            if time.time() > t_end:
                break
    return best, execs[0]


def write_replay(mod, cfg, tier, base_seed, index, choices, sig, detail, original_len):
    os.makedirs(REPLAY_DIR, exist_ok=True)
    res = execute(mod, cfg, prescribed=choices)
    safe = sig.replace("/", "_").replace(" ", "_")[:60]
    path = os.path.join(REPLAY_DIR, "%s_%s_%s.json" % (mod.PROPERTY, safe, str(index).replace(
        " ", "").replace("(", "").replace(")", "").replace(",", "-").replace("'", "")))
    doc = {"property": mod.PROPERTY, "tier": tier, "verif_seed": base_seed,
           "run_index": index, "signature": sig, "detail": detail, "cfg": cfg,
           "choices": res["choices"], "labels": res["labels"], "digest": res.get("digest"),
           "scenario": res.get("sample"), "original_choice_count": original_len,
           "violations": res.get("violations")}
    with open(path, "w") as f:
        json.dump(doc, f, indent=1, default=_jd)
    return path


def _jd(o):
    if isinstance(o, (bytes, bytearray)):
        return o.hex()
    if isinstance(o, (set, frozenset)):
        return sorted(o)
    if isinstance(o, tuple):
        return list(o)
    return str(o)


def do_replay(mod, path):
    with open(path) as f:
        doc = json.load(f)
    cfg = doc.get("cfg") or {}
    res = execute(mod, cfg, prescribed=doc["choices"])
    sigs = [s for s, _ in res.get("violations") or []]
    print("replay %s: digest=%s (recorded %s) violations=%s" % (
        path, res.get("digest"), doc.get("digest"), sigs))
    for s, d in res.get("violations") or []:
        print("  %s: %s" % (s, d))
    same = doc["signature"] in sigs and res.get("digest") == doc.get("digest")
    if doc["signature"] in sigs:
        print("VIOLATION property=%s replay=%s" % (mod.PROPERTY, path))
        if not same:
            print("NOTE: violation reproduced but event digest differs")
        return 1
    print("replay did not reproduce the recorded violation")
    return 0


# --------------------------------------------------------------------- evidence

def write_evidence(mod, tier, base_seed, total, cfg, wall_s, nviol, known_printed,
                   mutants=None, extra=None):
    os.makedirs(EVIDENCE_DIR, exist_ok=True)
    runs = total["runs"]
    comps = getattr(mod, "COMPONENTS", {})
    cov = {
        "evaluations": runs,
        "distinct_nontrivial": len(total["states"]),
        "rule": mod.RULE,
        "samples": total["samples"][:4],
        "exhaustive": bool(getattr(mod, "EXHAUSTIVE", {}).get(tier, False)),
        "enumerated_cases": total.get("enum", 0),
        "seeded_runs": runs - total.get("enum", 0),
        "nontrivial_runs": total["nontrivial"],
        "runs_per_hour": int(runs / wall_s * 3600) if wall_s > 0 else 0,
        "seeds_per_hour": int(runs / wall_s * 3600) if wall_s > 0 else 0,
        "simulated_seconds": round(total["sim_s"], 3),
        "faults_fired": dict(sorted(total["faults"].items())),
        "probes": dict(sorted(total["probes"].items())),
        "distinct_abstract_states": len(total["states"]),
        "distinct_schedules": len(total["scheds"]),
        "components_real": comps.get("real", []),
        "components_stub": list(comps.get("stub", [])) + (
            [] if any("logging" in c for c in comps.get("real", []) + comps.get("stub", [])) else
            ["logging (switched off in simulation: the code's logging calls return without rendering "
             "their arguments)"]),
        "workers": NWORKERS,
        "wall_capped": total["wall_capped"],
        "sim_cfg": cfg,
        "known_findings_reported": known_printed,
    }
    if mutants is not None:
        cov["mutants_killed"] = mutants
    if extra:
        cov.update(extra)
    doc = {
        "property_id": mod.PROPERTY, "tier": tier, "seed": int(base_seed),
        "level": mod.LEVEL, "coverage": cov,
        "assumptions": getattr(mod, "ASSUMPTIONS", []),
        "wall_s": round(wall_s, 2), "violations": nviol,
    }
    path = os.path.join(EVIDENCE_DIR, "%s.json" % mod.PROPERTY)
    with open(path, "w") as f:
        json.dump(doc, f, indent=1, default=_jd)
    return path


# --------------------------------------------------------------------- mutants

def _mutant_child(args):
    modname, name, tier, base_seed, runs = args
    import importlib
    faulthandler.enable()
    faulthandler.dump_traceback_later(300, exit=True)
    mod = importlib.import_module(modname)
    cfg = mod.SIM_CFG(tier) if hasattr(mod, "SIM_CFG") else {}
    undo = mod.MUTANTS[name]()
    enum_items = mod.ENUM(tier) if hasattr(mod, "ENUM") else []
    known = load_known_findings(mod.PROPERTY)

    def first_new(res):
        for sg, _ in res.get("violations") or []:
            if sg not in known:
                return sg
        return None
    try:
        t_end = time.time() + getattr(mod, 'MUTANT_WALL', 40)
        n = 0
        for idx, prefix in enumerate(enum_items):
            seed = derive_seed(base_seed, mod.PROPERTY, "enum", idx)
            ch = _PrefixChoices(prefix, seed)
            try:
                res = run_guarded(mod, ch, cfg)
            except BaseException as e:
                return (name, True, n, "harness-exception:%s" % type(e).__name__)
            n += 1
            if first_new(res):
                return (name, True, n, first_new(res))
            if time.time() > t_end:
                break
        for i in range(runs):
            seed = derive_seed(base_seed, mod.PROPERTY, i)
            try:
                res = execute(mod, cfg, seed=seed)
            except BaseException as e:
                return (name, True, n, "harness-exception:%s" % type(e).__name__)
            n += 1
            if first_new(res):
                return (name, True, n, first_new(res))
            if time.time() > t_end:
                break
        return (name, False, n, None)
    finally:
        if undo:
            undo()


def run_mutants(mod, tier, base_seed, runs=None):
    runs = runs or getattr(mod, 'MUTANT_RUNS', 3000)
    names = list(getattr(mod, "MUTANTS", {}).keys())
    if not names:
        return {}
    ctx = multiprocessing.get_context("fork")
    out = {}
    with ProcessPoolExecutor(max_workers=min(NWORKERS, len(names)), mp_context=ctx) as ex:
        for name, killed, n, sig in ex.map(
                _mutant_child, [(mod.__name__, nm, tier, base_seed, runs) for nm in names]):
            out[name] = {"killed": killed, "runs_needed": n, "signature": sig}
    return out


# --------------------------------------------------------------------- main

def main(mod):
    boot.ensure_hashseed()
    ap = argparse.ArgumentParser()
    ap.add_argument("--tier", default=os.environ.get("VERIF_TIER", "quick"))
    ap.add_argument("--replay")
    ap.add_argument("--selftest", action="store_true",
                    help="sensitivity: every in-memory mutant must be caught")
    ap.add_argument("--runs", type=int)
    ap.add_argument("--wall", type=float)
    ap.add_argument("--digests", action="store_true",
                    help="print run digests (determinism self-test helper)")
    ap.add_argument("--no-evidence", action="store_true")
    a = ap.parse_args()
    base_seed = int(os.environ.get("VERIF_SEED", "0"))
    print("VERIF_SEED=%d property=%s tier=%s workers=%d" % (
        base_seed, mod.PROPERTY, a.tier, NWORKERS))
    sys.stdout.flush()
    if a.replay:
        sys.exit(do_replay(mod, a.replay))
    if a.selftest:
        res = run_mutants(mod, a.tier, base_seed)
        bad = [n for n, r in res.items() if not r["killed"]]
        for n, r in sorted(res.items()):
            print("mutant %-40s %s after %d runs (%s)" % (
                n, "KILLED" if r["killed"] else "SURVIVED", r["runs_needed"], r["signature"]))
        sys.exit(2 if bad else 0)
    t0 = time.time()
    try:
        total, cfg = run_batch(mod, a.tier, base_seed, runs=a.runs, wall=a.wall)
    except HarnessError as e:
        print("HARNESS-ERROR: %s" % e)
        sys.exit(2)
    if a.digests:
        for idx, d in sorted(total["digests"]):
            print("DIGEST %s %s" % (idx, d))
    if total["harness_errors"]:
        print("HARNESS-ERROR: %d worker(s) failed:\n%s" % (
            len(total["harness_errors"]), total["harness_errors"][0]))
        sys.exit(2)
    if total["runs"] == 0:
        print("HARNESS-ERROR: no run executed")
        sys.exit(2)
    known = load_known_findings(mod.PROPERTY)
    # group violations by signature
    by_sig = {}
    for v in total["violations"]:
        for sig, detail in v["violations"]:
            by_sig.setdefault(sig, []).append((v, detail))
    known_printed = []
    new_sigs = []
    for sig in sorted(by_sig):
        if sig in known:
            known_printed.append(sig)
            print("KNOWN-FINDING: property=%s %s [%s] (%d occurrence(s) this run)" % (
                mod.PROPERTY, known[sig], sig,
                total.get("sig_counts", {}).get(sig, len(by_sig[sig]))))
        else:
            new_sigs.append(sig)
    exit_code = 0
    nviol = 0
    if new_sigs:
        print("violation signatures: " + ", ".join(
            "%s x%d" % (sg, total.get("sig_counts", {}).get(sg, len(by_sig[sg])))
            for sg in new_sigs))
    for sig in new_sigs[:int(os.environ.get("VERIF_MAX_REPORTS", "8"))]:
        v, detail = min(by_sig[sig], key=lambda x: len(x[0]["choices"]))
        small, execs = shrink(mod, cfg, v["choices"], sig,
                              budget_s=float(os.environ.get("VERIF_SHRINK_S", "20")))
        path = write_replay(mod, cfg, a.tier, base_seed, v["index"], small, sig, detail,
                            len(v["choices"]))
        print("violation %s: %s" % (sig, detail))
        print("  minimised %d -> %d choices in %d executions" % (
            len(v["choices"]), len(small), execs))
        print("VIOLATION property=%s replay=%s" % (mod.PROPERTY, path))
        nviol += total.get("sig_counts", {}).get(sig, len(by_sig[sig]))
        exit_code = 1
    mutants = None
    if a.tier == "thorough" and exit_code == 0 and hasattr(mod, "MUTANTS") \
            and os.environ.get("VERIF_SKIP_MUTANTS") != "1":
        try:
            mutants = run_mutants(mod, "quick", base_seed)
            surv = [n for n, r in mutants.items() if not r["killed"]]
            if surv:
                print("HARNESS-WARNING: mutants not caught: %s" % surv)
        except Exception as e:
            # a stale mutant anchor must not turn a clean property run into a failure
            print("HARNESS-WARNING: sensitivity self-test could not run: %r" % (e,))
            mutants = {"error": repr(e)[:300]}
    wall_s = time.time() - t0
    if not a.no_evidence:
        p = write_evidence(mod, a.tier, base_seed, total, cfg, wall_s, nviol, known_printed,
                           mutants=mutants,
                           extra=mod.EVIDENCE_EXTRA(total) if hasattr(mod, "EVIDENCE_EXTRA")
                           else None)
        print("evidence: %s" % p)
    print("runs=%d (enumerated %d) nontrivial=%d distinct_states=%d faults=%s wall=%.1fs "
          "(%.0f runs/h) sim=%.0fs%s" % (
              total["runs"], total.get("enum", 0), total["nontrivial"], len(total["states"]),
              dict(sorted(total["faults"].items())), wall_s, total["runs"] / wall_s * 3600,
              total["sim_s"], " WALL-CAPPED" if total["wall_capped"] else ""))
    sys.exit(exit_code)
