"""Stand-in for the subset of python-bitcoinlib 0.12.2 (`bitcoin.core`,
`bitcoin.core.script`) that rsk-powhsm's middleware uses.  The real package is
absent from this sandbox and cannot be fetched (see DESIGN.md 3.9).

Declared STUB.  Semantics follow python-bitcoinlib 0.12.2:

* CTransaction.deserialize: consensus (de)serialisation incl. segwit
  marker/flag, rejects trailing bytes;
* CScript iteration yields 0 for OP_0, bytes for pushes, small ints for
  OP_1..OP_16 and CScriptOp otherwise; CScript(iterable) re-encodes every item
  canonically (ints 0..16 -> OP_n, -1 -> OP_1NEGATE, bytes -> minimal PUSHDATA);
* SignatureHash legacy and witness-v0 (SIGHASH_ALL family).
"""
import hashlib
import io
import struct
import sys
import types


class SerializationError(Exception):
    pass


class SerializationTruncationError(SerializationError):
    pass


class DeserializationExtraDataError(SerializationError):
    def __init__(self, msg, obj, padding):
        super().__init__(msg)
        self.obj = obj
        self.padding = padding


def Hash(b):
    return hashlib.sha256(hashlib.sha256(b).digest()).digest()


def ser_read(f, n):
    if n > 0x02000000:
        raise SerializationError("Asked to read 0x%x bytes; MAX_SIZE exceeded" % n)
    r = f.read(n)
    if len(r) < n:
        raise SerializationTruncationError(
            "Asked to read %i bytes, but only got %i" % (n, len(r)))
    return r


class VarIntSerializer:
    @classmethod
    def stream_serialize(cls, i, f):
        if i < 0:
            raise ValueError("varint must be non-negative integer")
        elif i < 0xfd:
            f.write(bytes([i]))
        elif i <= 0xffff:
            f.write(b"\xfd" + struct.pack("<H", i))
        elif i <= 0xffffffff:
            f.write(b"\xfe" + struct.pack("<I", i))
        else:
            f.write(b"\xff" + struct.pack("<Q", i))

    @classmethod
    def serialize(cls, i):
        f = io.BytesIO()
        cls.stream_serialize(i, f)
        return f.getvalue()

    @classmethod
    def stream_deserialize(cls, f):
        r = ser_read(f, 1)[0]
        if r < 0xfd:
            return r
        elif r == 0xfd:
            return struct.unpack("<H", ser_read(f, 2))[0]
        elif r == 0xfe:
            return struct.unpack("<I", ser_read(f, 4))[0]
        else:
            return struct.unpack("<Q", ser_read(f, 8))[0]

    @classmethod
    def deserialize(cls, buf):
        return cls.stream_deserialize(io.BytesIO(buf))


def _ser_bytes(b, f):
    VarIntSerializer.stream_serialize(len(b), f)
    f.write(b)


def _deser_bytes(f):
    n = VarIntSerializer.stream_deserialize(f)
    return ser_read(f, n)


class _Serializable:
    @classmethod
    def deserialize(cls, buf, allow_padding=False):
        fd = io.BytesIO(bytes(buf))
        r = cls.stream_deserialize(fd)
        if not allow_padding:
            padding = fd.read()
            if len(padding) != 0:
                raise DeserializationExtraDataError(
                    "Not all bytes consumed during deserialization", r, padding)
        return r

    def serialize(self, **kw):
        f = io.BytesIO()
        self.stream_serialize(f, **kw)
        return f.getvalue()

    def GetHash(self):
        return Hash(self.serialize())


# ---------------------------------------------------------------- script

class CScriptInvalidError(Exception):
    pass


class CScriptTruncatedPushDataError(CScriptInvalidError):
    def __init__(self, msg, data):
        self.data = data
        super().__init__(msg)


OP_0 = 0x00
OP_PUSHDATA1 = 0x4c
OP_PUSHDATA2 = 0x4d
OP_PUSHDATA4 = 0x4e
OP_1NEGATE = 0x4f
OP_1 = 0x51
OP_16 = 0x60
OP_CODESEPARATOR = 0xab


class CScriptOp(int):
    __slots__ = ()

    @staticmethod
    def encode_op_pushdata(d):
        if len(d) < 0x4c:
            return bytes([len(d)]) + d
        elif len(d) <= 0xff:
            return b"\x4c" + bytes([len(d)]) + d
        elif len(d) <= 0xffff:
            return b"\x4d" + struct.pack("<H", len(d)) + d
        elif len(d) <= 0xffffffff:
            return b"\x4e" + struct.pack("<I", len(d)) + d
        raise ValueError("Data too long to encode in a PUSHDATA op")

    @staticmethod
    def encode_op_n(n):
        if not (0 <= n <= 16):
            raise ValueError("Integer must be in range 0 <= n <= 16, got %d" % n)
        if n == 0:
            return CScriptOp(OP_0)
        return CScriptOp(OP_1 + n - 1)

    def decode_op_n(self):
        if self == OP_0:
            return 0
        if not (self == OP_0 or OP_1 <= self <= OP_16):
            raise ValueError("op %r is not an OP_N" % self)
        return int(self - OP_1 + 1)

    def is_small_int(self):
        return 0x51 <= self <= 0x60 or self == 0

    def __repr__(self):
        return "CScriptOp(0x%x)" % int(self)


def _bn2vch(v):
    # bitcoin.core._bignum.bn2vch
    if v == 0:
        return b""
    neg = v < 0
    a = abs(v)
    out = bytearray()
    while a:
        out.append(a & 0xff)
        a >>= 8
    if out[-1] & 0x80:
        out.append(0x80 if neg else 0x00)
    elif neg:
        out[-1] |= 0x80
    return bytes(out)


class CScript(bytes):
    @classmethod
    def _coerce(cls, other):
        if isinstance(other, CScriptOp):
            return bytes([int(other)])
        elif isinstance(other, bool):
            # bool is an int in Python; python-bitcoinlib treats it as int
            return cls._coerce(int(other))
        elif isinstance(other, int):
            if 0 <= other <= 16:
                return bytes([int(CScriptOp.encode_op_n(other))])
            elif other == -1:
                return bytes([OP_1NEGATE])
            else:
                return CScriptOp.encode_op_pushdata(_bn2vch(other))
        elif isinstance(other, (bytes, bytearray)):
            return CScriptOp.encode_op_pushdata(bytes(other))
        raise TypeError("Can not coerce %r into a script element" % (other,))

    def __new__(cls, value=b""):
        if isinstance(value, (bytes, bytearray)):
            return super().__new__(cls, bytes(value))
        return super().__new__(cls, b"".join(cls._coerce(x) for x in value))

    def raw_iter(self):
        i = 0
        n = len(self)
        while i < n:
            sop_idx = i
            opcode = self[i]
            i += 1
            if opcode > OP_PUSHDATA4:
                yield (opcode, None, sop_idx)
                continue
            pushdata_type = None
            if opcode < OP_PUSHDATA1:
                pushdata_type = "PUSHDATA(%d)" % opcode
                datasize = opcode
            elif opcode == OP_PUSHDATA1:
                pushdata_type = "PUSHDATA1"
                if i >= n:
                    raise CScriptInvalidError("PUSHDATA1: missing data length")
                datasize = self[i]
                i += 1
            elif opcode == OP_PUSHDATA2:
                pushdata_type = "PUSHDATA2"
                if i + 1 >= n:
                    raise CScriptInvalidError("PUSHDATA2: missing data length")
                datasize = self[i] + (self[i + 1] << 8)
                i += 2
            else:
                pushdata_type = "PUSHDATA4"
                if i + 3 >= n:
                    raise CScriptInvalidError("PUSHDATA4: missing data length")
                datasize = (self[i] + (self[i + 1] << 8) + (self[i + 2] << 16)
                            + (self[i + 3] << 24))
                i += 4
            data = bytes(self[i:i + datasize])
            if len(data) != datasize:
                raise CScriptTruncatedPushDataError(
                    "%s: truncated data" % pushdata_type, data)
            i += datasize
            yield (opcode, data, sop_idx)

    def __iter__(self):
        for (opcode, data, sop_idx) in self.raw_iter():
            if opcode == 0:
                yield 0
            elif data is not None:
                yield data
            else:
                op = CScriptOp(opcode)
                if op.is_small_int():
                    yield op.decode_op_n()
                else:
                    yield op


def FindAndDelete(script, sig):
    r = b""
    last_sop_idx = sop_idx = 0
    skip = True
    for (opcode, data, sop_idx) in script.raw_iter():
        if not skip:
            r += script[last_sop_idx:sop_idx]
        last_sop_idx = sop_idx
        if script[sop_idx:sop_idx + len(sig)] == sig:
            skip = True
        else:
            skip = False
    if not skip:
        r += script[last_sop_idx:]
    return CScript(r)


# ---------------------------------------------------------------- tx

class COutPoint(_Serializable):
    def __init__(self, hash=b"\x00" * 32, n=0xffffffff):
        if len(hash) != 32:
            raise ValueError("COutPoint: hash must be exactly 32 bytes")
        self.hash = hash
        self.n = n

    @classmethod
    def stream_deserialize(cls, f):
        h = ser_read(f, 32)
        n = struct.unpack("<I", ser_read(f, 4))[0]
        return cls(h, n)

    def stream_serialize(self, f):
        f.write(self.hash)
        f.write(struct.pack("<I", self.n))


class CTxIn(_Serializable):
    def __init__(self, prevout=None, scriptSig=CScript(), nSequence=0xffffffff):
        self.prevout = prevout if prevout is not None else COutPoint()
        self.scriptSig = scriptSig
        self.nSequence = nSequence

    @classmethod
    def stream_deserialize(cls, f):
        prevout = COutPoint.stream_deserialize(f)
        scriptSig = CScript(_deser_bytes(f))
        nSequence = struct.unpack("<I", ser_read(f, 4))[0]
        return cls(prevout, scriptSig, nSequence)

    def stream_serialize(self, f):
        self.prevout.stream_serialize(f)
        _ser_bytes(bytes(self.scriptSig), f)
        f.write(struct.pack("<I", self.nSequence))

    @classmethod
    def from_txin(cls, txin):
        return cls(COutPoint(txin.prevout.hash, txin.prevout.n),
                   txin.scriptSig, txin.nSequence)


CMutableTxIn = CTxIn
CMutableOutPoint = COutPoint


class CTxOut(_Serializable):
    def __init__(self, nValue=-1, scriptPubKey=CScript()):
        self.nValue = int(nValue)
        self.scriptPubKey = scriptPubKey

    @classmethod
    def stream_deserialize(cls, f):
        nValue = struct.unpack("<q", ser_read(f, 8))[0]
        spk = CScript(_deser_bytes(f))
        return cls(nValue, spk)

    def stream_serialize(self, f):
        f.write(struct.pack("<q", self.nValue))
        _ser_bytes(bytes(self.scriptPubKey), f)


CMutableTxOut = CTxOut


class CTxInWitness:
    def __init__(self, stack=()):
        self.stack = tuple(stack)

    def is_null(self):
        return len(self.stack) == 0


class CTxWitness:
    def __init__(self, vtxinwit=()):
        self.vtxinwit = tuple(vtxinwit)

    def is_null(self):
        return all(w.is_null() for w in self.vtxinwit)


class CTransaction(_Serializable):
    def __init__(self, vin=(), vout=(), nLockTime=0, nVersion=1, witness=None):
        if not (0 <= nLockTime <= 0xffffffff):
            raise ValueError("CTransaction: nLockTime must be in range 0x0 to "
                             "0xffffffff; got %x" % nLockTime)
        self.nLockTime = nLockTime
        self.nVersion = nVersion
        self.vin = list(vin)
        self.vout = list(vout)
        self.wit = witness if witness is not None else CTxWitness()

    @classmethod
    def stream_deserialize(cls, f):
        nVersion = struct.unpack("<i", ser_read(f, 4))[0]
        pos = f.tell()
        markerbyte = ser_read(f, 1)[0]
        flagbyte = ser_read(f, 1)[0]
        if markerbyte == 0 and flagbyte == 1:
            nin = VarIntSerializer.stream_deserialize(f)
            vin = [CTxIn.stream_deserialize(f) for _ in range(nin)]
            nout = VarIntSerializer.stream_deserialize(f)
            vout = [CTxOut.stream_deserialize(f) for _ in range(nout)]
            wits = []
            for _ in range(len(vin)):
                n = VarIntSerializer.stream_deserialize(f)
                wits.append(CTxInWitness([_deser_bytes(f) for _ in range(n)]))
            nLockTime = struct.unpack("<I", ser_read(f, 4))[0]
            return cls(vin, vout, nLockTime, nVersion, CTxWitness(wits))
        f.seek(pos)
        nin = VarIntSerializer.stream_deserialize(f)
        vin = [CTxIn.stream_deserialize(f) for _ in range(nin)]
        nout = VarIntSerializer.stream_deserialize(f)
        vout = [CTxOut.stream_deserialize(f) for _ in range(nout)]
        nLockTime = struct.unpack("<I", ser_read(f, 4))[0]
        return cls(vin, vout, nLockTime, nVersion)

    def stream_serialize(self, f, include_witness=True):
        f.write(struct.pack("<i", self.nVersion))
        withwit = include_witness and not self.wit.is_null()
        if withwit:
            f.write(b"\x00\x01")
        VarIntSerializer.stream_serialize(len(self.vin), f)
        for i in self.vin:
            i.stream_serialize(f)
        VarIntSerializer.stream_serialize(len(self.vout), f)
        for o in self.vout:
            o.stream_serialize(f)
        if withwit:
            for w in self.wit.vtxinwit:
                VarIntSerializer.stream_serialize(len(w.stack), f)
                for item in w.stack:
                    _ser_bytes(item, f)
        f.write(struct.pack("<I", self.nLockTime))

    def GetHash(self):
        return Hash(self.serialize(include_witness=False))

    GetTxid = GetHash


CMutableTransaction = CTransaction


class CBlockHeader(_Serializable):
    def __init__(self, nVersion=2, hashPrevBlock=b"\x00" * 32,
                 hashMerkleRoot=b"\x00" * 32, nTime=0, nBits=0, nNonce=0):
        self.nVersion = nVersion
        self.hashPrevBlock = hashPrevBlock
        self.hashMerkleRoot = hashMerkleRoot
        self.nTime = nTime
        self.nBits = nBits
        self.nNonce = nNonce

    @classmethod
    def stream_deserialize(cls, f):
        nVersion = struct.unpack("<i", ser_read(f, 4))[0]
        hp = ser_read(f, 32)
        hm = ser_read(f, 32)
        nTime = struct.unpack("<I", ser_read(f, 4))[0]
        nBits = struct.unpack("<I", ser_read(f, 4))[0]
        nNonce = struct.unpack("<I", ser_read(f, 4))[0]
        return cls(nVersion, hp, hm, nTime, nBits, nNonce)

    def stream_serialize(self, f):
        f.write(struct.pack("<i", self.nVersion))
        f.write(self.hashPrevBlock)
        f.write(self.hashMerkleRoot)
        f.write(struct.pack("<I", self.nTime))
        f.write(struct.pack("<I", self.nBits))
        f.write(struct.pack("<I", self.nNonce))


# ---------------------------------------------------------------- sighash

SIGHASH_ALL = 1
SIGHASH_NONE = 2
SIGHASH_SINGLE = 3
SIGHASH_ANYONECANPAY = 0x80
SIGVERSION_BASE = 0
SIGVERSION_WITNESS_V0 = 1


def SignatureHash(script, txTo, inIdx, hashtype, amount=None,
                  sigversion=SIGVERSION_BASE):
    if sigversion == SIGVERSION_WITNESS_V0:
        hashPrevouts = b"\x00" * 32
        hashSequence = b"\x00" * 32
        hashOutputs = b"\x00" * 32
        if not (hashtype & SIGHASH_ANYONECANPAY):
            hashPrevouts = Hash(b"".join(i.prevout.serialize() for i in txTo.vin))
        if (not (hashtype & SIGHASH_ANYONECANPAY) and (hashtype & 0x1f) != SIGHASH_SINGLE
                and (hashtype & 0x1f) != SIGHASH_NONE):
            hashSequence = Hash(b"".join(struct.pack("<I", i.nSequence)
                                         for i in txTo.vin))
        if (hashtype & 0x1f) != SIGHASH_SINGLE and (hashtype & 0x1f) != SIGHASH_NONE:
            hashOutputs = Hash(b"".join(o.serialize() for o in txTo.vout))
        elif (hashtype & 0x1f) == SIGHASH_SINGLE and inIdx < len(txTo.vout):
            hashOutputs = Hash(txTo.vout[inIdx].serialize())
        f = io.BytesIO()
        f.write(struct.pack("<i", txTo.nVersion))
        f.write(hashPrevouts)
        f.write(hashSequence)
        txTo.vin[inIdx].prevout.stream_serialize(f)
        _ser_bytes(bytes(script), f)
        f.write(struct.pack("<q", amount))
        f.write(struct.pack("<I", txTo.vin[inIdx].nSequence))
        f.write(hashOutputs)
        f.write(struct.pack("<i", txTo.nLockTime))
        f.write(struct.pack("<i", hashtype))
        return Hash(f.getvalue())

    if inIdx >= len(txTo.vin):
        raise ValueError("inIdx %d out of range (%d)" % (inIdx, len(txTo.vin)))
    script = FindAndDelete(CScript(bytes(script)), CScript([CScriptOp(OP_CODESEPARATOR)]))
    vin = []
    for n, i in enumerate(txTo.vin):
        vin.append(CTxIn(i.prevout, script if n == inIdx else CScript(b""), i.nSequence))
    vout = list(txTo.vout)
    if (hashtype & 0x1f) == SIGHASH_NONE:
        vout = []
        for n in range(len(vin)):
            if n != inIdx:
                vin[n].nSequence = 0
    elif (hashtype & 0x1f) == SIGHASH_SINGLE:
        outIdx = inIdx
        if outIdx >= len(vout):
            return b"\x01" + b"\x00" * 31
        tmp = vout[outIdx]
        vout = [CTxOut() for _ in range(outIdx)] + [tmp]
        for n in range(len(vin)):
            if n != inIdx:
                vin[n].nSequence = 0
    if hashtype & SIGHASH_ANYONECANPAY:
        vin = [vin[inIdx]]
    tmp = CTransaction(vin, vout, txTo.nLockTime, txTo.nVersion)
    s = tmp.serialize(include_witness=False) + struct.pack("<I", hashtype)
    return Hash(s)


def install():
    """Install this module as `bitcoin.core` (+ `.script`) in sys.modules."""
    me = sys.modules[__name__]
    pkg = types.ModuleType("bitcoin")
    pkg.__path__ = []
    pkg.__dict__["__verif_stub__"] = True
    core = types.ModuleType("bitcoin.core")
    core.__path__ = []
    script = types.ModuleType("bitcoin.core.script")
    for k, v in me.__dict__.items():
        if k.startswith("__") or k == "install":
            continue
        setattr(core, k, v)
        setattr(script, k, v)
    core.script = script
    pkg.core = core
    sys.modules["bitcoin"] = pkg
    sys.modules["bitcoin.core"] = core
    sys.modules["bitcoin.core.script"] = script
    return core
