"""Signal seam: `signal.signal` / `signal.getsignal` of a simulated process.

A simulated process (a set of kernel tasks in one interpreter) registers its handlers here instead
of with the real interpreter (whose `signal.signal` refuses any thread but the real main thread);
the world delivers a signal at a seam of the process's main task, the way CPython does: the handler
runs in the main thread between two bytecodes, on top of whatever that thread was doing.  Without a
handler the signal's default action applies (terminate / ignore / KeyboardInterrupt for SIGINT)."""
import signal as _signal

from sim import simthreading as _st
from sim import world as _world

_real_signal = _signal.signal
_real_getsignal = _signal.getsignal
_installed = False

TERMINATE = {getattr(_signal, n) for n in ("SIGHUP", "SIGTERM", "SIGUSR1", "SIGUSR2", "SIGALRM", "SIGQUIT",
                                           "SIGPIPE") if hasattr(_signal, n)}
IGNORE = {getattr(_signal, n) for n in ("SIGWINCH", "SIGCHLD", "SIGURG", "SIGCONT") if hasattr(_signal, n)}


def _table():
    w = _world._CURRENT
    if w is None or not _st.under_sim():
        return None
    k = getattr(w, "kernel", None)
    cur = k.current if k is not None else None
    proc = getattr(cur, "proc", None) if cur is not None else None
    if proc is None:
        return None
    if not hasattr(w, "sig_handlers"):
        w.sig_handlers = {}
    return w.sig_handlers.setdefault(proc, {}), cur, proc


def signal(signum, handler):
    t = _table()
    if t is None:
        return _real_signal(signum, handler)
    table, cur, proc = t
    if cur.name != proc:
        # CPython: only the main thread of the main interpreter may set handlers
        raise ValueError("signal only works in main thread of the main interpreter")
    old = table.get(int(signum), _signal.SIG_DFL)
    table[int(signum)] = handler
    return old


def getsignal(signum):
    t = _table()
    if t is None:
        return _real_getsignal(signum)
    return t[0].get(int(signum), _signal.SIG_DFL)


def install():
    global _installed
    if _installed:
        return
    _installed = True
    _signal.signal = signal
    _signal.getsignal = getsignal
