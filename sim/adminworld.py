"""Admin world: the admin tools (adm_ledger.main, adm_sgx.main, signapp.main,
signonetime.main) run as successive *processes* (single task each) against one
simulated device, file system, operator, clock and entropy stream.

Seams: device link (hid / TCP), builtins.open & co (SimFS under /simfs/),
sys.argv / sys.stdin / sys.stdout / getpass (operator), time.sleep (virtual
clock), os.urandom (entropy stream derived from the run's choices, recorded),
datetime.now in admin.certificate_v2 (virtual clock), requests (raises)."""
import contextlib
import datetime as _dt
import io
import os
import sys

from sim import boot
boot.boot()

import ledgerblue.commTCP as _lb_tcp                 # noqa: E402
import admin.misc as _misc                           # noqa: E402
import admin.certificate_v2 as _certv2               # noqa: E402

from sim import world as _world                      # noqa: E402
from sim import simfs                                # noqa: E402
from sim.choices import EventLog                     # noqa: E402
from sim.clock import Clock                          # noqa: E402
from sim.hidlink import HidLink                      # noqa: E402
from sim.tcplink import TcpLink, SocketShim, set_tcplink   # noqa: E402

_real_urandom = os.urandom
_CUR = None
_installed = False


class _SimDatetime(_dt.datetime):
    @classmethod
    def now(cls, tz=None):
        w = _CUR
        if w is None:
            return _dt.datetime.now(tz)
        if tz is None:
            # naive local time: the zone of the simulated host (world.tz_offset seconds east of UTC)
            return _dt.datetime.fromtimestamp(w.clock.now, _dt.timezone.utc).replace(tzinfo=None) + \
                _dt.timedelta(seconds=getattr(w, "tz_offset", 0))
        return _dt.datetime.fromtimestamp(w.clock.now, tz)

    @classmethod
    def utcnow(cls):
        w = _CUR
        if w is None:
            return _dt.datetime.utcnow()
        return _dt.datetime.fromtimestamp(w.clock.now, _dt.timezone.utc).replace(tzinfo=None)

    @classmethod
    def today(cls):
        return cls.now()


def _urandom(n):
    w = _CUR
    if w is None or not w.entropy_on:
        return _real_urandom(n)
    return w.entropy(n)


class _TimeShim:
    def sleep(self, d):
        _CUR.clock.sleep(d)

    def time(self):
        return _CUR.clock.time()


def install():
    global _installed
    if _installed:
        return
    _installed = True
    _world.install_seams()
    simfs.install()
    _lb_tcp.socket = SocketShim
    _misc.time = _TimeShim()
    _certv2.datetime = _SimDatetime
    os.urandom = _urandom


class Operator:
    """Scripted operator: answers to stdin prompts and getpass, with side effects
    (e.g. replugging the device when asked to press Enter)."""

    def __init__(self):
        self.stdin_script = []      # list of (text, side_effect or None)
        self.getpass_script = []
        self.prompts = 0

    def readline(self):
        self.prompts += 1
        if not self.stdin_script:
            self.eof_reads = getattr(self, "eof_reads", 0) + 1
            if self.eof_reads > 20:
                raise KeyboardInterrupt("SIM: operator gave up (stdin exhausted, tool keeps asking)")
            return ""
        if getattr(self, "on_prompt", None):
            self.on_prompt()
        text, eff = self.stdin_script.pop(0)
        if eff:
            eff()
        return text + "\n"

    def getpass(self, prompt=""):
        self.prompts += 1
        if getattr(self, "on_prompt", None):
            self.on_prompt()
        if not self.getpass_script:
            raise EOFError("operator has nothing more to type")
        return self.getpass_script.pop(0)


class _Stdin:
    def __init__(self, op):
        self.op = op

    def readline(self):
        return self.op.readline()


class AdminWorld:
    def __init__(self, ch, device, platform="ledger", start=1_700_000_000.0):
        global _CUR
        install()
        self.ch = ch
        self.platform = platform
        self.log = EventLog()
        self.clock = Clock(start=start, log=self.log)
        self.device = device
        device.clock = self.clock
        device.log = self.log
        if platform == "ledger":
            self.link = HidLink(device, self.clock, self.log)
        else:
            self.link = TcpLink(device, self.clock, self.log)
        self.fs = simfs.FS(self.log)
        self.crash_check = None
        self.sleep_hook = None
        self.operator = Operator()
        self.entropy_on = True
        self.entropy_served = []          # every byte string handed out by os.urandom
        self.runs = []                    # (argv, exit status, stdout)
        self.activate()

    def activate(self):
        global _CUR
        _CUR = self
        _world._CURRENT = self
        simfs.set_fs(self.fs)
        if self.platform != "ledger":
            set_tcplink(self.link)

    def entropy(self, n):
        b = self.ch.bytes(n, "entropy")
        self.entropy_served.append(b)
        self.log.ev("entropy", n)
        return b

    def run_tool(self, main, argv):
        """Runs one tool invocation as a process. Returns (exit_status, stdout)."""
        self.activate()
        out = io.StringIO()
        old_argv, old_stdin = sys.argv, sys.stdin
        old_getpass = _misc.getpass
        status = None
        sys.argv = list(argv)
        sys.stdin = _Stdin(self.operator)
        _misc.getpass = self.operator.getpass
        self.log.ev("tool", " ".join(argv))
        try:
            with contextlib.redirect_stdout(out), contextlib.redirect_stderr(io.StringIO()):
                try:
                    main()
                    status = 0
                except SystemExit as e:
                    status = e.code if isinstance(e.code, int) else (0 if e.code is None else 1)
        finally:
            sys.argv, sys.stdin = old_argv, old_stdin
            _misc.getpass = old_getpass
        text = out.getvalue()
        self.log.ev("tool-exit", status, len(text))
        self.runs.append((list(argv), status, text))
        return status, text
