"""Virtual file system mounted under /simfs/ (everything else passes through to
the real one, so imports and configuration files are untouched).

Mirrors CPython's buffered file semantics at the granularity that matters for
crash consistency: open(...,'w'/'wb') truncates/creates *immediately*; write()
buffers; flush()/close() performs the write.  Every one of these is a seam: a
fault point and a crash point.  Only completed effects survive a process crash
(process-crash model; the code under test never calls fsync).

Fault kinds, keyed by operation (see FS.fault_fn):
  open:   "eperm" PermissionError, "enospc" (on create), "eio"
  write:  ("short", n)  n bytes reach the file then ENOSPC
  close:  "eio" (buffer lost), ("torn", n) n bytes reach the file then EIO
  read:   "eio"
"""
import builtins
import errno
import io
import os
import pathlib

from sim.kernel import check_foreign as _check_foreign

PREFIX = "/simfs/"
_real_open = builtins.open
_real_isfile = os.path.isfile
_real_exists = os.path.exists
_real_path_is_file = pathlib.Path.is_file
_real_path_read_text = pathlib.Path.read_text

_FS = None


def set_fs(fs):
    global _FS
    _FS = fs


def _mine(path):
    try:
        p = os.fspath(path)
    except TypeError:
        return False
    if isinstance(p, bytes):
        p = p.decode("latin-1")
    return isinstance(p, str) and (p.startswith(PREFIX) or p == PREFIX.rstrip("/")) and _FS is not None


class _Files(dict):
    """path -> content; every assignment stamps a modification time (a logical tick: later writes
    are newer), which os.stat / os.path.getmtime report."""

    def __init__(self, *a, **kw):
        super().__init__(*a, **kw)
        self.tick = 0
        self.mtimes = {}

    def __setitem__(self, key, value):
        self.tick += 1
        self.mtimes[key] = self.tick
        super().__setitem__(key, value)


class FS:
    def __init__(self, log=None, seam=None):
        self.files = _Files()
        self.log = log
        self.seam = seam               # callable(label) -> may raise SimCrash
        self.fault_fn = None           # (op, path, index) -> fault | None
        self.opcount = 0
        self.ops = []                  # (index, op, path, detail)
        self.writes = []               # (path, bytes) every completed write effect
        self.faults_fired = {}
        self.fds = {}
        self.on_change = None          # hook(path) after every durable change

    # ---- helpers
    def _op(self, op, path, detail=""):
        _check_foreign()
        if self.seam:
            self.seam("fs." + op)
        i = self.opcount
        self.opcount += 1
        self.ops.append((i, op, path, detail))
        if self.log is not None:
            self.log.ev("fs", op, path, detail)
        f = self.fault_fn(op, path, i) if self.fault_fn else None
        if f is not None:
            k = f if isinstance(f, str) else f[0]
            self.faults_fired["fs.%s.%s" % (op, k)] = self.faults_fired.get(
                "fs.%s.%s" % (op, k), 0) + 1
        return f

    def _changed(self, path):
        if self.on_change:
            self.on_change(path)

    def read_bytes(self, path):
        return self.files.get(path)

    def put(self, path, data):
        self.files[path] = bytes(data)

    def isfile(self, path):
        self._op("stat", path)
        return path in self.files

    def open(self, path, mode="r", *a, **kw):
        binary = "b" in mode
        m = mode.replace("b", "").replace("t", "")
        if m in ("r",):
            f = self._op("open-r", path)
            if f == "eio":
                raise OSError(errno.EIO, "Input/output error", path)
            if f == "eperm":
                raise PermissionError(errno.EACCES, "Permission denied", path)
            if path not in self.files:
                raise FileNotFoundError(errno.ENOENT, "No such file or directory", path)
            return _RFile(self, path, binary)
        if m in ("w", "x", "a", "w+"):
            f = self._op("open-w", path, "create" if path not in self.files else "truncate")
            if f == "eperm":
                raise PermissionError(errno.EACCES, "Permission denied", path)
            modes = self.__dict__.setdefault("modes", {})
            if path in self.files and not modes.get(path, 0o644) & 0o200:
                # the simulated processes do not run as root: their own read-only file is read-only
                raise PermissionError(errno.EACCES, "Permission denied", path)
            if path not in self.files:
                modes[path] = 0o666 & ~self.__dict__.get("umask", 0o022)
            if f == "eio":
                raise OSError(errno.EIO, "Input/output error", path)
            if f == "enospc" and path not in self.files:
                raise OSError(errno.ENOSPC, "No space left on device", path)
            if m == "x" and path in self.files:
                raise FileExistsError(errno.EEXIST, "File exists", path)
            if m != "a":
                self.files[path] = b""            # truncation / creation is immediate
                self.writes.append((path, b""))
                self._changed(path)
            else:
                self.files.setdefault(path, b"")
            return _WFile(self, path, binary)
        raise ValueError("simfs: unsupported mode %r" % mode)


class _RFile:
    def __init__(self, fs, path, binary):
        self.fs = fs
        self.path = path
        self.binary = binary
        self.closed = False
        self._pos = 0
        self.name = path

    def read(self, n=-1):
        f = self.fs._op("read", self.path)
        if f == "eio":
            raise OSError(errno.EIO, "Input/output error", self.path)
        data = self.fs.files.get(self.path, b"")[self._pos:]
        if n is not None and n >= 0:
            data = data[:n]
        self._pos += len(data)
        return data if self.binary else data.decode("utf-8")

    def readline(self, *a):
        data = self.fs.files.get(self.path, b"")[self._pos:]
        i = data.find(b"\n")
        line = data if i < 0 else data[:i + 1]
        self._pos += len(line)
        return line if self.binary else line.decode("utf-8")

    def readlines(self):
        out = []
        while True:
            ln = self.readline()
            if not ln:
                return out
            out.append(ln)

    def __iter__(self):
        return iter(self.readlines())

    def close(self):
        self.closed = True

    def __enter__(self):
        return self

    def __exit__(self, *a):
        self.close()
        return False


class _WFile:
    def __init__(self, fs, path, binary):
        self.fs = fs
        self.path = path
        self.binary = binary
        self.buf = bytearray()
        self.closed = False
        self.name = path

    def write(self, data):
        if self.closed:
            raise ValueError("I/O operation on closed file.")
        if not self.binary:
            if not isinstance(data, str):
                raise TypeError("write() argument must be str, not %s" % type(data).__name__)
            b = data.encode("utf-8")
        else:
            b = bytes(data)
        f = self.fs._op("write", self.path, len(b))
        if isinstance(f, tuple) and f[0] == "short":
            n = min(f[1], len(b))
            self.buf += b[:n]
            self._flush_effect()
            raise OSError(errno.ENOSPC, "No space left on device", self.path)
        self.buf += b
        return len(data)

    def _flush_effect(self):
        if self.buf:
            self.fs.files[self.path] = self.fs.files.get(self.path, b"") + bytes(self.buf)
            self.fs.writes.append((self.path, bytes(self.buf)))
            self.buf = bytearray()
            self.fs._changed(self.path)

    def flush(self):
        f = self.fs._op("flush", self.path, len(self.buf))
        if f == "eio":
            self.buf = bytearray()
            raise OSError(errno.EIO, "Input/output error", self.path)
        self._flush_effect()

    def close(self):
        if self.closed:
            return
        self.closed = True
        f = self.fs._op("close", self.path, len(self.buf))
        if f == "eio":
            self.buf = bytearray()
            raise OSError(errno.EIO, "Input/output error", self.path)
        if isinstance(f, tuple) and f[0] == "torn":
            self.buf = self.buf[:f[1]]
            self._flush_effect()
            raise OSError(errno.EIO, "Input/output error", self.path)
        self._flush_effect()

    def __enter__(self):
        return self

    def __exit__(self, *a):
        self.close()
        return False


# ---------------------------------------------------------------------- os-level API

_real_os = {}
_FD_BASE = 100000


class _Fd:
    def __init__(self, path, flags):
        self.path = path
        self.flags = flags
        self.pos = 0


def _os_open(path, flags, mode=0o777, *a, **kw):
    if not _mine(path):
        return _real_os["open"](path, flags, mode, *a, **kw)
    fs = _FS
    p = os.fspath(path)
    writing = flags & (os.O_WRONLY | os.O_RDWR)
    exists = p in fs.files
    f = fs._op("open-w" if writing or flags & os.O_CREAT else "open-r", p,
               "os.open flags=%#x" % flags)
    if f == "eperm":
        raise PermissionError(errno.EACCES, "Permission denied", p)
    if f == "eio":
        raise OSError(errno.EIO, "Input/output error", p)
    if f == "enospc" and not exists:
        raise OSError(errno.ENOSPC, "No space left on device", p)
    if not exists:
        if not flags & os.O_CREAT:
            raise FileNotFoundError(errno.ENOENT, "No such file or directory", p)
        fs.files[p] = b""
        fs.writes.append((p, b""))
        fs._changed(p)
    elif flags & os.O_CREAT and flags & os.O_EXCL:
        raise FileExistsError(errno.EEXIST, "File exists", p)
    if exists and flags & os.O_TRUNC and writing:
        fs.files[p] = b""
        fs.writes.append((p, b""))
        fs._changed(p)
    fd = _FD_BASE + len(fs.fds)
    fs.fds[fd] = _Fd(p, flags)
    if flags & os.O_APPEND:
        fs.fds[fd].pos = len(fs.files[p])
    return fd


def _fd_of(fd):
    return _FS.fds.get(fd) if _FS is not None and isinstance(fd, int) and fd >= _FD_BASE else None


def _os_write(fd, data):
    h = _fd_of(fd)
    if h is None:
        return _real_os["write"](fd, data)
    fs = _FS
    data = bytes(data)
    f = fs._op("write", h.path, len(data))
    if isinstance(f, tuple) and f[0] == "short":
        data = data[:f[1]]
        if not data:
            raise OSError(errno.ENOSPC, "No space left on device", h.path)
    cur = fs.files.get(h.path, b"")
    cur = cur[:h.pos].ljust(h.pos, b"\x00") + data + cur[h.pos + len(data):]
    fs.files[h.path] = cur
    h.pos += len(data)
    fs.writes.append((h.path, data))
    fs._changed(h.path)
    return len(data)


def _os_read(fd, n):
    h = _fd_of(fd)
    if h is None:
        return _real_os["read"](fd, n)
    f = _FS._op("read", h.path)
    if f == "eio":
        raise OSError(errno.EIO, "Input/output error", h.path)
    out = _FS.files.get(h.path, b"")[h.pos:h.pos + n]
    h.pos += len(out)
    return out


def _os_close(fd):
    h = _fd_of(fd)
    if h is None:
        return _real_os["close"](fd)
    f = _FS._op("close", h.path, 0)
    del _FS.fds[fd]
    if f == "eio":
        raise OSError(errno.EIO, "Input/output error", h.path)


def _os_fsync(fd):
    h = _fd_of(fd)
    if h is None:
        return _real_os["fsync"](fd)
    f = _FS._op("fsync", h.path)
    if f == "eio":
        raise OSError(errno.EIO, "Input/output error", h.path)


def _os_rename(src, dst, *a, **kw):
    if not (_mine(src) or _mine(dst)):
        return _real_os["rename"](src, dst, *a, **kw)
    fs = _FS
    s_, d_ = os.fspath(src), os.fspath(dst)
    f = fs._op("rename", d_, s_)
    if f in ("eio", "eperm", "enospc"):
        raise OSError(errno.EIO, "Input/output error", d_)
    if s_ not in fs.files:
        raise FileNotFoundError(errno.ENOENT, "No such file or directory", s_)
    fs.files[d_] = fs.files.pop(s_)        # atomic replacement
    fs.writes.append((d_, fs.files[d_]))
    fs._changed(d_)
    fs._changed(s_)


def _os_remove(path, *a, **kw):
    if not _mine(path):
        return _real_os["remove"](path, *a, **kw)
    fs = _FS
    p = os.fspath(path)
    f = fs._op("remove", p)
    if f in ("eio", "eperm"):
        raise PermissionError(errno.EACCES, "Permission denied", p)
    if p not in fs.files:
        raise FileNotFoundError(errno.ENOENT, "No such file or directory", p)
    del fs.files[p]
    fs._changed(p)


def _os_stat(path, *a, **kw):
    if isinstance(path, int) or not _mine(path):
        return _real_os["stat"](path, *a, **kw)
    p = os.fspath(path)
    _FS._op("stat", p)
    if p not in _FS.files:
        raise FileNotFoundError(errno.ENOENT, "No such file or directory", p)
    size = len(_FS.files[p])
    mt = 1_700_000_000 + getattr(_FS.files, "mtimes", {}).get(p, 0)
    return os.stat_result((0o100000 | _FS.__dict__.get('modes', {}).get(p, 0o644), 0, 0, 1, 0, 0, size, mt, mt, mt))


def _os_access(path, mode, *a, **kw):
    if not _mine(path):
        return _real_os["access"](path, mode, *a, **kw)
    return os.fspath(path) in _FS.files or bool(mode & os.W_OK)


def _os_chmod(path, mode, *a, **kw):
    if not _mine(path):
        return _real_os["chmod"](path, mode, *a, **kw)
    # a metadata operation with its own ways of failing (not the owner, read-only file system)
    path = os.fspath(path)
    f = _FS._op("chmod", path, oct(mode))
    if path not in _FS.files:
        raise FileNotFoundError(errno.ENOENT, "No such file or directory", path)
    if f in ("eperm", "eacces"):
        raise PermissionError(errno.EPERM, "Operation not permitted", path)
    if f in ("eio", "erofs"):
        raise OSError(errno.EROFS if f == "erofs" else errno.EIO, "chmod failed", path)
    _FS.__dict__.setdefault("modes", {})[path] = mode & 0o7777
    return None


def _os_umask(mask):
    """Under a simulated file system the process's umask is the file system's (the harness's own
    umask is not touched)."""
    if _FS is None or not _umask_sim():
        return _real_os["umask"](mask)
    old = _FS.__dict__.get("umask", 0o022)
    _FS.umask = mask & 0o777
    return old


def _umask_sim():
    from sim import boot as _boot
    return bool(getattr(_boot, "IN_RUN", False))


class _DirEntry:
    def __init__(self, d, name, isdir):
        self.name = name
        self.path = d.rstrip("/") + "/" + name
        self._isdir = isdir

    def is_dir(self, follow_symlinks=True):
        return self._isdir

    def is_file(self, follow_symlinks=True):
        return not self._isdir

    def is_symlink(self):
        return False


class _ScanDir(list):
    def __enter__(self):
        return self

    def __exit__(self, *a):
        return False

    def close(self):
        pass


def _children(d):
    d = os.fspath(d).rstrip("/") + "/"
    out = {}
    for p in _FS.files:
        if p.startswith(d):
            rest = p[len(d):]
            name, _, more = rest.partition("/")
            out[name] = out.get(name, False) or bool(more)
    return out


def _os_scandir(path="."):
    if isinstance(path, int) or not _mine(path):
        return _real_os["scandir"](path)
    ch = _children(path)
    if not ch and os.fspath(path).rstrip("/") != "/simfs":
        raise FileNotFoundError(errno.ENOENT, "No such file or directory", os.fspath(path))
    return _ScanDir(_DirEntry(os.fspath(path), n, isd) for n, isd in sorted(ch.items()))


def _os_listdir(path="."):
    if isinstance(path, int) or not _mine(path):
        return _real_os["listdir"](path)
    return [e.name for e in _os_scandir(path)]


def _lexists(path):
    if _mine(path):
        p = os.fspath(path)
        return p in _FS.files or bool(_children(p)) or p.rstrip("/") == "/simfs"
    return _real_lexists(path)


def _isdir(path):
    if _mine(path):
        p = os.fspath(path)
        return p not in _FS.files and (bool(_children(p)) or p.rstrip("/") == "/simfs")
    return _real_isdir(path)


def _getsize(path):
    if _mine(path):
        return _os_stat(path).st_size
    return _real_getsize(path)


_real_getsize = os.path.getsize

# ---------------------------------------------------------------------- patches

def _open(path, mode="r", *a, **kw):
    if _mine(path):
        return _FS.open(os.fspath(path), mode, *a, **kw)
    return _real_open(path, mode, *a, **kw)


def _isfile(path):
    if _mine(path):
        return _FS.isfile(os.fspath(path))
    return _real_isfile(path)


def _exists(path):
    if _mine(path):
        return _FS.isfile(os.fspath(path))
    return _real_exists(path)


def _path_is_file(self, *a, **kw):
    if _mine(self):
        return _FS.isfile(str(self))
    return _real_path_is_file(self, *a, **kw)


def _path_read_text(self, *a, **kw):
    if _mine(self):
        with _FS.open(str(self), "r") as f:
            return f.read()
    return _real_path_read_text(self, *a, **kw)


_installed = False
_real_lexists = _real_isdir = None


def install():
    global _installed
    if _installed:
        return
    _installed = True
    builtins.open = _open
    io.open = _open
    os.path.isfile = _isfile
    os.path.exists = _exists
    pathlib.Path.is_file = _path_is_file
    pathlib.Path.read_text = _path_read_text
    for name, fn in (("open", _os_open), ("write", _os_write), ("read", _os_read),
                     ("close", _os_close), ("fsync", _os_fsync), ("rename", _os_rename),
                     ("replace", _os_rename), ("remove", _os_remove), ("unlink", _os_remove),
                     ("stat", _os_stat), ("access", _os_access), ("chmod", _os_chmod),
                     ("umask", _os_umask), ("scandir", _os_scandir), ("listdir", _os_listdir)):
        _real_os[name] = getattr(os, name)
        setattr(os, name, fn)
    os.path.getsize = _getsize
    global _real_lexists, _real_isdir
    _real_lexists, _real_isdir = os.path.lexists, os.path.isdir
    os.path.lexists = _lexists
    os.path.isdir = _isdir
