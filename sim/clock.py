"""Virtual clock: the only time source the code under test reads."""


class Clock:
    def __init__(self, start=1_700_000_000.0, log=None):
        self.now = float(start)
        self.start = float(start)
        self.log = log
        self.sleeps = 0
        self.on_advance = None   # hook(new_now) for timers (device boot etc.)

    def time(self):
        return self.now

    def monotonic(self):
        return self.now

    def advance(self, d):
        if d > 0:
            self.now += d
            if self.on_advance:
                self.on_advance(self.now)

    def sleep(self, d):
        self.sleeps += 1
        if self.log is not None and d >= 0.01:
            self.log.ev("sleep", "%.4f" % d)
        self.advance(d)

    @property
    def elapsed(self):
        return self.now - self.start


class TimeModule:
    """Drop-in for the `time` module as seen by one patched module."""

    def __init__(self, clock, sleep=None):
        self._c = clock
        self._sleep = sleep

    def time(self):
        return self._c.time()

    def monotonic(self):
        return self._c.monotonic()

    def sleep(self, d):
        if self._sleep is not None:
            return self._sleep(d)
        return self._c.sleep(d)
