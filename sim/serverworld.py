"""Full-server world: the real comm.server.TCPServer.run (-> real
socketserver.TCPServer / serve_forever / StreamRequestHandler / shutdown helper
thread) as a task under the baton scheduler, simulated clients, device, link and
clock.  Whatever server class comm.server names is the one that runs."""
import socketserver as _socketserver

from sim import world as _world
from sim.world import World
from sim.kernel import Kernel, ThreadingShim, set_kernel, SimCrash, StepCap  # noqa: F401
from sim.simnet import SimNet, SocketModuleShim, FakeSelector, set_net

import comm.server as _server_mod
import mgr.runner as _runner_mod

_installed = False


def _no_fork(*a, **k):
    raise RuntimeError("SIM-UNSUPPORTED: os.fork inside socketserver cannot be simulated in-process")


def install_server_seams():
    global _installed
    if _installed:
        return
    _installed = True
    from sim import simthreading
    simthreading.install()
    _socketserver.socket = SocketModuleShim
    _socketserver._ServerSelector = FakeSelector
    _socketserver.threading = ThreadingShim
    _server_mod.threading = ThreadingShim
    _runner_mod.configure_logging = lambda path: None

    class _OsShim:
        def __getattr__(self, name):
            if name == "fork":
                return _no_fork
            import os
            return getattr(os, name)
    _socketserver.os = _OsShim()


class ServerWorld(World):
    def __init__(self, ch, step_cap=20000, latency=None, **kw):
        install_server_seams()
        super().__init__(ch, **kw)
        self.kernel = Kernel(ch, self.clock, self.log, step_cap=step_cap)
        self.net = SimNet(self.kernel, ch, self.log)
        set_kernel(self.kernel)
        set_net(self.net)
        k = self.kernel
        self.sleep_hook = k.sleep
        self.link.xchg_yield = k.yield_point
        self.link.wait = k.sleep
        if latency is not None:
            self.link.latency_fn = latency
        self.manager_task = None
        self.server = None
        self.manager_outcome = None

    def start_manager(self, host="localhost", port=9999):
        self.activate()
        set_kernel(self.kernel)
        set_net(self.net)
        self.server = _server_mod.TCPServer(host, port, self.protocol)

        def body():
            try:
                self.server.run()
                self.manager_outcome = "returned"
            except SimCrash:
                raise
            except BaseException as e:
                self.manager_outcome = "raised %s: %s" % (type(e).__name__, e)
                raise
        self.manager_task = self.kernel.spawn(body, "manager")
        return self.manager_task

    def serving(self):
        return self.net.listener is not None and self.net.listener.listening and \
            not self.manager_task.done

    def finish(self):
        leaked = self.kernel.shutdown()
        return leaked
