"""Independent reference verifier for version-2 (SGX) attestation certificates
(C07, C15, C08): own DER reader for X.509 (tbs, signature, validity, SPKI), the
pure-Python `ecdsa` package for P-256 / P-384, own offsets for the quote and
report-body structures.  Nothing shared with admin/certificate_v2.py,
sgx/envelope.py, comm/cstruct.py or the `cryptography` package.

load(doc) -> Cert | None;  validate(cert, root_b64_der, now) -> {target: verdict}
verdict = (True, {"message": hex, "quote": bytes}) | (False, element name)
"""
import base64
import calendar
import hashlib

import ecdsa

OID_P256 = bytes.fromhex("2a8648ce3d030107")
OID_P384 = bytes.fromhex("2b81040022")
OID_SHA256 = bytes.fromhex("2a8648ce3d040302")
OID_SHA384 = bytes.fromhex("2a8648ce3d040303")
REPORT_DATA_OFFSET_IN_BODY = 320
QUOTE_HEADER = 48


def _hex(v):
    if type(v) is not str:
        return None
    try:
        b = bytes.fromhex(v)
    except ValueError:
        return None
    return b if len(b) > 0 else None


class DerError(Exception):
    pass


def rd(b, o):
    if o + 2 > len(b):
        raise DerError("truncated")
    tag = b[o]
    l0 = b[o + 1]
    o += 2
    if l0 & 0x80:
        n = l0 & 0x7F
        if n == 0 or o + n > len(b):
            raise DerError("length")
        ln = int.from_bytes(b[o:o + n], "big")
        o += n
    else:
        ln = l0
    if o + ln > len(b):
        raise DerError("truncated body")
    return tag, b[o:o + ln], o + ln, o


def parse_time(tag, body):
    s = body.decode("ascii")
    if tag == 0x17:
        yy = int(s[0:2])
        year = 2000 + yy if yy < 50 else 1900 + yy
        rest = s[2:]
    elif tag == 0x18:
        year = int(s[0:4])
        rest = s[4:]
    else:
        raise DerError("time tag")
    if not rest.endswith("Z") or len(rest) != 11:
        raise DerError("time format")
    mo, d, h, mi, se = (int(rest[i:i + 2]) for i in range(0, 10, 2))
    return calendar.timegm((year, mo, d, h, mi, se, 0, 0, 0))


class X509:
    def __init__(self, der):
        tag, cert, end, _ = rd(der, 0)
        if tag != 0x30 or end != len(der):
            raise DerError("certificate")
        t, tbs, o, start = rd(cert, 0)
        if t != 0x30:
            raise DerError("tbs")
        hdr_start = 0
        self.tbs_raw = cert[hdr_start:o]
        t, alg, o, _ = rd(cert, o)
        t2, oid, _, _ = rd(alg, 0)
        self.sig_oid = oid
        t, sigbits, o, _ = rd(cert, o)
        if t != 0x03 or not sigbits or sigbits[0] > 7:
            raise DerError("signature")
        # BIT STRING: the first octet counts unused bits at the end. DER wants 0 here for a signature,
        # but the library under the code (OpenSSL through `cryptography`) reads BER: it accepts 1..7
        # and drops those bits. The reference does the same, so that an altered count which leaves
        # the signature what it was is "the same certificate" for both sides.
        self.signature = sigbits[1:]
        if sigbits[0] and self.signature:
            self.signature = self.signature[:-1] + bytes(
                [self.signature[-1] & (0xFF << sigbits[0]) & 0xFF])
        # walk the tbs
        p = 0
        t, v, nxt, _ = rd(tbs, p)
        if t == 0xA0:
            p = nxt
            t, v, nxt, _ = rd(tbs, p)
        p = nxt                               # serial
        t, v, p, _ = rd(tbs, p)               # signature algorithm
        t, v, p, _ = rd(tbs, p)               # issuer
        t, validity, p, _ = rd(tbs, p)
        t1, nb, q, _ = rd(validity, 0)
        t2, na, q, _ = rd(validity, q)
        self.not_before = parse_time(t1, nb)
        self.not_after = parse_time(t2, na)
        t, v, p, _ = rd(tbs, p)               # subject
        t, spki, p, _ = rd(tbs, p)
        t, algid, q, _ = rd(spki, 0)
        t, o1, r, _ = rd(algid, 0)
        t, curve_oid, r, _ = rd(algid, r)
        t, keybits, q, _ = rd(spki, q)
        point = keybits[1:]
        if curve_oid == OID_P256:
            self.curve = ecdsa.NIST256p
        elif curve_oid == OID_P384:
            self.curve = ecdsa.NIST384p
        else:
            raise DerError("curve")
        self.vk = ecdsa.VerifyingKey.from_string(point, curve=self.curve)


def x509_valid(subject, issuer, now):
    """subject / issuer: X509 or None (unparseable)."""
    if subject is None or issuer is None:
        return False
    if subject.not_before > now or subject.not_after < now:
        return False
    hf = {OID_SHA256: hashlib.sha256, OID_SHA384: hashlib.sha384}.get(subject.sig_oid)
    if hf is None:
        return False
    try:
        return issuer.vk.verify(subject.signature, subject.tbs_raw, hashfunc=hf,
                                sigdecode=ecdsa.util.sigdecode_der)
    except Exception:
        return False


def p256_verify(vk, sig_der, message):
    if vk is None or vk.curve != ecdsa.NIST256p:
        return False
    try:
        return vk.verify_digest(sig_der, hashlib.sha256(message).digest(),
                                sigdecode=ecdsa.util.sigdecode_der)
    except Exception:
        return False


class Elem:
    pass


class Cert:
    def __init__(self):
        self.targets = []
        self.elements = {}


def load(doc):
    if type(doc) is not dict or doc.get("version") != 2:
        return None
    if type(doc.get("targets")) is not list or "elements" not in doc:
        return None
    c = Cert()
    c.targets = doc["targets"]
    try:
        for item in doc["elements"]:
            if type(item) is not dict or item.get("type") not in ("sgx_quote", "sgx_attestation_key",
                                                                   "x509_pem"):
                return None
            if "name" not in item or "signed_by" not in item:
                return None
            e = Elem()
            e.name, e.signed_by, e.type = item["name"], item["signed_by"], item["type"]
            if e.type == "x509_pem":
                try:
                    e.der = base64.b64decode(item.get("message"))
                except Exception:
                    return None
            else:
                e.message = _hex(item.get("message"))
                e.signature = _hex(item.get("signature"))
                if e.message is None or e.signature is None:
                    return None
                if e.type == "sgx_quote":
                    e.custom = _hex(item.get("custom_data"))
                    if e.custom is None:
                        return None
                else:
                    e.key = _hex(item.get("key"))
                    e.auth = b"" if item.get("auth_data") == "" else _hex(item.get("auth_data"))
                    if e.key is None or e.auth is None:
                        return None
            c.elements[e.name] = e
    except TypeError:
        return None
    for t in c.targets:
        try:
            if t not in c.elements:
                return None
        except TypeError:
            return None
        seen = []
        cur = c.elements[t]
        while True:
            if cur.name in seen:
                return None
            if cur.signed_by == "sgx_root":
                break
            try:
                if cur.signed_by not in c.elements:
                    return None
            except TypeError:
                return None
            seen.append(cur.name)
            cur = c.elements[cur.signed_by]
    return c


def _x509_of(e):
    try:
        return X509(e.der)
    except Exception:
        return None


def _key_of(e):
    """The public key an element certifies with (None if it cannot provide one)."""
    if e.type == "x509_pem":
        x = _x509_of(e)
        if x is None or x.curve != ecdsa.NIST256p:
            return None
        return x.vk
    if e.type == "sgx_attestation_key":
        try:
            return ecdsa.VerifyingKey.from_string(e.key, curve=ecdsa.NIST256p)
        except Exception:
            return None
    return None


def elem_valid(e, certifier, now):
    """certifier: Elem or ("root", X509|None)."""
    if e.type == "x509_pem":
        if isinstance(certifier, tuple):
            issuer = certifier[1]
        elif certifier.type == "x509_pem":
            issuer = _x509_of(certifier)
        else:
            return False
        return x509_valid(_x509_of(e), issuer, now)
    if isinstance(certifier, tuple):
        ck = certifier[1].vk if certifier[1] is not None and certifier[1].curve == ecdsa.NIST256p \
            else None
    else:
        ck = _key_of(certifier)
    if e.type == "sgx_attestation_key":
        if len(e.message) < 384:
            return False
        try:
            key = ecdsa.VerifyingKey.from_string(e.key, curve=ecdsa.NIST256p)
        except Exception:
            return False
        expected = hashlib.sha256(key.to_string() + e.auth).digest()
        if e.message[REPORT_DATA_OFFSET_IN_BODY:REPORT_DATA_OFFSET_IN_BODY + 32] != expected:
            return False
        return p256_verify(ck, e.signature, e.message)
    if e.type == "sgx_quote":
        if len(e.message) < QUOTE_HEADER + 384:
            return False
        expected = hashlib.sha256(e.custom).digest()
        off = QUOTE_HEADER + REPORT_DATA_OFFSET_IN_BODY
        if e.message[off:off + 32] != expected:
            return False
        return p256_verify(ck, e.signature, e.message)
    return False


def validate(cert, root_der, now):
    try:
        root = X509(root_der)
    except Exception:
        root = None
    out = {}
    for t in cert.targets:
        chain = []
        cur = cert.elements[t]
        while cur.signed_by != "sgx_root":
            chain.append(cur)
            cur = cert.elements[cur.signed_by]
        chain.append(cur)
        chain.reverse()
        certifier = ("root", root)
        res = None
        for e in chain:
            if not elem_valid(e, certifier, now):
                res = (False, e.name)
                break
            certifier = e
        if res is None:
            leaf = chain[-1]
            if leaf.type == "sgx_quote":
                res = (True, {"message": leaf.custom.hex(), "quote": leaf.message})
            else:
                res = (True, None)          # only quotes can provide a value
        out[t] = res
    return out
