"""Executable reading of docs/protocol.md (v5) and docs/protocol-v1.md for C02.

verdict(doc, v1) -> ("accept",) | ("reject", codes) | ("may", codes)

  accept : the documents describe this request as well-formed: the manager must
           take it to the device (or answer `version`).
  reject : some field is definitely not what the documents prescribe: the manager
           must answer one of `codes` and must not contact the device.
  may    : the documents are silent: either acceptance or one of `codes`.

A document with several defects allows the code of any of them (the documents do
not order the checks).  Assumptions A1-A8 are listed in DESIGN.md 4/C02.
"""
import string

HEXDIGITS = set(string.hexdigits)
WS = set(" \t\n\r\x0b\x0c")

OK, BAD, UNSURE = "ok", "bad", "unsure"


def hexness(v, nbytes=None, nonempty=False):
    """-> OK / BAD / UNSURE for 'v is a hex string' (of nbytes bytes)."""
    if type(v) is not str:
        return BAD
    if all(c in HEXDIGITS for c in v) and len(v) % 2 == 0:
        n = len(v) // 2
        if nbytes is not None and n != nbytes:
            return BAD
        if nonempty and n == 0:
            return BAD
        return OK
    if all(c in HEXDIGITS or c in WS for c in v):
        # bytes.fromhex-style tolerance of white space: documents silent
        digits = [c for c in v if c in HEXDIGITS]
        if len(digits) % 2 == 0:
            n = len(digits) // 2
            if (nbytes is None or n == nbytes) and not (nonempty and n == 0):
                return UNSURE
        return BAD
    return BAD


def keyid_status(v):
    """A7: 'm/' + five components, decimal < 2^31, optional trailing quote."""
    if type(v) is not str:
        return BAD
    if not v.startswith("m/"):
        return BAD
    comps = v[2:].split("/")
    if len(comps) != 5:
        return BAD
    st = OK
    for c in comps:
        if c.endswith("'"):
            c = c[:-1]
        if c == "":
            return BAD
        if all(ch in "0123456789" for ch in c):
            if int(c) >= 2 ** 31:
                return BAD
            if len(c) > 1 and c[0] == "0":
                st = UNSURE          # leading zeroes: silent
        elif c.isdecimal():
            st = UNSURE              # non-ASCII decimal digits: silent
        else:
            return BAD
    return st


class _Acc:
    def __init__(self):
        self.bad = set()
        self.unsure = set()

    def add(self, status, code):
        if status == BAD:
            self.bad.add(code)
        elif status == UNSURE:
            self.unsure.add(code)

    def result(self):
        if self.bad:
            return ("reject", self.bad | self.unsure)
        if self.unsure:
            return ("may", set(self.unsure))
        return ("accept",)


def is_int(v):
    return type(v) is int


def verdict(doc, v1=False):
    if v1:
        return _verdict_v1(doc)
    F, R, U, W = -901, -902, -903, -904
    if type(doc) is not dict:
        return ("reject", {F, R})
    if "command" not in doc:
        return ("reject", {R, F})
    cmd = doc["command"]
    acc = _Acc()
    # version gate
    if "version" not in doc:
        if cmd != "version":
            return ("reject", {R, W})
    else:
        ver = doc["version"]
        if type(ver) is int and ver == 5:
            pass
        elif type(ver) is float and ver == 5.0:
            acc.add(UNSURE, W)
        else:
            return ("reject", {W, R})
    if type(cmd) is not str:
        return ("reject", {U, R, F})
    known = ["version", "sign", "getPubKey", "advanceBlockchain", "resetAdvanceBlockchain",
             "blockchainState", "updateAncestorBlock", "blockchainParameters", "signerHeartbeat",
             "uiHeartbeat"]
    if cmd not in known:
        return ("reject", {U})
    documented_fields = {
        "version": set(), "sign": {"keyId", "message", "auth"}, "getPubKey": {"keyId"},
        "advanceBlockchain": {"blocks", "brothers"}, "resetAdvanceBlockchain": set(),
        "blockchainState": set(), "updateAncestorBlock": {"blocks"},
        "blockchainParameters": set(), "signerHeartbeat": {"udValue"}, "uiHeartbeat": {"udValue"},
    }[cmd] | {"command", "version"}
    if set(doc) - documented_fields:
        acc.add(UNSURE, R)           # undocumented extra members: silent
    if cmd == "getPubKey":
        acc.add(BAD if "keyId" not in doc else keyid_status(doc["keyId"]), -103)
    elif cmd == "sign":
        _sign(doc, acc)
    elif cmd == "advanceBlockchain":
        _blocks(doc, acc)
        bl = doc.get("blocks")
        br = doc.get("brothers")
        if type(br) is not list:
            acc.add(BAD, -205)
        else:
            if type(bl) is list and len(br) != len(bl):
                acc.add(BAD, -205)
            for lst in br:
                if type(lst) is not list:
                    acc.add(BAD, -205)
                    continue
                for b in lst:
                    st = hexness(b, nonempty=True)
                    acc.add(st, -205)
                    if st == OK:
                        acc.add(UNSURE, -205)    # A8: content judged during the exchange
                        acc.add(UNSURE, -204)
    elif cmd == "updateAncestorBlock":
        _blocks(doc, acc)
    elif cmd in ("signerHeartbeat", "uiHeartbeat"):
        n = 16 if cmd == "signerHeartbeat" else 32
        acc.add(BAD if "udValue" not in doc else hexness(doc["udValue"], nbytes=n), -301)
    return acc.result()


def _blocks(doc, acc):
    bl = doc.get("blocks")
    if type(bl) is not list or len(bl) == 0:
        acc.add(BAD, -204)
        return
    for b in bl:
        if type(b) is not str:
            acc.add(BAD, -204)
        else:
            # A8: whether the string is hex / RLP / a header is judged while the
            # exchange is already under way
            acc.add(UNSURE, -204)


def _auth(auth, acc, code=-101):
    if type(auth) is not dict:
        acc.add(BAD, code)
        return
    if set(auth) - {"receipt", "receipt_merkle_proof"}:
        acc.add(UNSURE, code)
    acc.add(BAD if "receipt" not in auth else hexness(auth["receipt"], nonempty=True), code)
    pr = auth.get("receipt_merkle_proof")
    if type(pr) is not list or len(pr) == 0:       # A6: proof non-empty
        acc.add(BAD, code)
    else:
        for n in pr:
            acc.add(hexness(n, nonempty=True), code)
        if len(pr) > 255 or any(type(n) is str and len(n) > 510 for n in pr):
            acc.add(UNSURE, code)                  # beyond what the device protocol can carry


def _sign(doc, acc):
    acc.add(BAD if "keyId" not in doc else keyid_status(doc["keyId"]), -103)
    msg = doc.get("message")
    if type(msg) is not dict:
        acc.add(BAD, -102)
        if "auth" in doc:
            sub = _Acc()
            _auth(doc["auth"], sub)
            if sub.bad or sub.unsure:
                acc.add(UNSURE, -101)
        return
    keys = set(msg)
    if keys == {"hash"}:
        acc.add(hexness(msg["hash"], nbytes=32), -102)
        if "auth" in doc:
            # the non-authorized format documents no auth member
            acc.add(UNSURE, -101)
        return
    # authorized format
    if "auth" not in doc:
        acc.add(BAD, -101)
    else:
        _auth(doc["auth"], acc)
    legacy = {"tx", "input", "sighashComputationMode"}
    segwit = legacy | {"witnessScript", "outpointValue"}
    mode = msg.get("sighashComputationMode")
    if mode == "legacy" and type(mode) is str:
        if keys != legacy:
            acc.add(BAD, -102)                     # A1
    elif mode == "segwit" and type(mode) is str:
        if keys != segwit:
            acc.add(BAD, -102)
    else:
        acc.add(BAD, -102)
        return
    acc.add(BAD if "tx" not in msg else hexness(msg["tx"], nonempty=True), -102)
    if "tx" in msg and hexness(msg["tx"], nonempty=True) == OK:
        acc.add(_tx_status(msg["tx"]), -102)       # A8: content of the transaction
    inp = msg.get("input")
    if not is_int(inp):
        acc.add(UNSURE if type(inp) is float and inp == int(inp) else BAD, -102)   # A2
    elif not (0 <= inp < 2 ** 32):
        acc.add(UNSURE, -102)
    if mode == "segwit":
        ws = msg.get("witnessScript")
        acc.add(BAD if "witnessScript" not in msg else hexness(ws, nonempty=True), -102)
        if type(ws) is str and len(ws) >= 2 * 65536:
            acc.add(UNSURE, -102)
        ov = msg.get("outpointValue")
        if not is_int(ov):
            acc.add(UNSURE if type(ov) is float and ov == int(ov) else BAD, -102)
        elif not (1 <= ov <= 2 ** 64 - 1):         # A3
            acc.add(BAD, -102)


def _tx_status(txhex):
    """OK when an independent parser decodes it (legacy serialisation) and every
    input script is non-empty and well-formed; BAD for an empty input script
    (the property text of C14 names that case); otherwise the documents are silent."""
    from refs import btc
    try:
        raw = bytes.fromhex(txhex)
        version, vin, vout, lock = btc.parse_tx(raw)
    except Exception:
        return UNSURE
    if len(vin) == 0:
        return UNSURE
    st = OK
    for _, script, _ in vin:
        if len(script) == 0:
            return BAD
        try:
            btc.parse_script(script)
        except Exception:
            st = UNSURE
    return st


def _verdict_v1(doc):
    G, W = -2, -666
    if type(doc) is not dict:
        return ("reject", {G})
    if "command" not in doc:
        return ("reject", {G})
    cmd = doc["command"]
    acc = _Acc()
    if "version" not in doc:
        if cmd != "version":
            return ("reject", {G, W})
    else:
        ver = doc["version"]
        if type(ver) is int and ver == 1:
            pass
        elif (type(ver) is float and ver == 1.0) or ver is True:
            acc.add(UNSURE, W)       # 1.0 / true: not the documented integer, silent
        else:
            return ("reject", {W, G})
    if type(cmd) is not str or cmd not in ("version", "sign", "getPubKey"):
        return ("reject", {G})
    fields = {"version": set(), "sign": {"keyId", "message"}, "getPubKey": {"keyId"}}[cmd]
    if set(doc) - fields - {"command", "version"}:
        acc.add(UNSURE, G)
    if cmd in ("sign", "getPubKey"):
        acc.add(BAD if "keyId" not in doc else keyid_status(doc["keyId"]), G)
    if cmd == "sign":
        acc.add(BAD if "message" not in doc else hexness(doc["message"], nbytes=32), G)
    return acc.result()
