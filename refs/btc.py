"""Independent BTC transaction builder / parser / blanking used by the oracles
(no code shared with comm/bitcoin.py or with the bitcoin.core stand-in).

Reference semantics of "blanking" (docs + property C01/C14): every input
script is reduced to one OP_0 per non-final operation followed by its final
operation, the final operation re-encoded canonically (minimal push opcode for
data pushes; single-byte opcodes unchanged).  Everything else is kept byte for
byte.
"""
import struct


def varint(n):
    if n < 0xfd:
        return bytes([n])
    if n <= 0xffff:
        return b"\xfd" + struct.pack("<H", n)
    if n <= 0xffffffff:
        return b"\xfe" + struct.pack("<I", n)
    return b"\xff" + struct.pack("<Q", n)


def read_varint(b, o):
    v = b[o]
    if v < 0xfd:
        return v, o + 1
    if v == 0xfd:
        return struct.unpack_from("<H", b, o + 1)[0], o + 3
    if v == 0xfe:
        return struct.unpack_from("<I", b, o + 1)[0], o + 5
    return struct.unpack_from("<Q", b, o + 1)[0], o + 9


# ---- script operations: list of ("push", opcode_form, data) | ("op", byte)
def encode_op(op):
    if op[0] == "op":
        return bytes([op[1]])
    _, form, data = op
    n = len(data)
    if form == "direct":
        assert n < 0x4c
        return bytes([n]) + data
    if form == "pd1":
        assert n <= 0xff
        return b"\x4c" + bytes([n]) + data
    if form == "pd2":
        assert n <= 0xffff
        return b"\x4d" + struct.pack("<H", n) + data
    if form == "pd4":
        return b"\x4e" + struct.pack("<I", n) + data
    raise ValueError(form)


def canonical_push(data):
    n = len(data)
    if n < 0x4c:
        return bytes([n]) + data
    if n <= 0xff:
        return b"\x4c" + bytes([n]) + data
    if n <= 0xffff:
        return b"\x4d" + struct.pack("<H", n) + data
    return b"\x4e" + struct.pack("<I", n) + data


def parse_script(s):
    """-> list of (opcode, data_or_None); raises ValueError on truncation."""
    ops = []
    i = 0
    n = len(s)
    while i < n:
        opc = s[i]
        i += 1
        if opc > 0x4e:
            ops.append((opc, None))
            continue
        if opc < 0x4c:
            size = opc
        elif opc == 0x4c:
            if i + 1 > n:
                raise ValueError("truncated PUSHDATA1")
            size = s[i]
            i += 1
        elif opc == 0x4d:
            if i + 2 > n:
                raise ValueError("truncated PUSHDATA2")
            size = s[i] | (s[i + 1] << 8)
            i += 2
        else:
            if i + 4 > n:
                raise ValueError("truncated PUSHDATA4")
            size = struct.unpack_from("<I", s, i)[0]
            i += 4
        if i + size > n:
            raise ValueError("truncated push")
        ops.append((opc, bytes(s[i:i + size])))
        i += size
    return ops


def blank_script(s):
    ops = parse_script(s)
    if not ops:
        raise ValueError("empty script")
    opc, data = ops[-1]
    if opc == 0:
        last = b"\x00"
    elif data is not None:
        last = canonical_push(data)
    else:
        last = bytes([opc])
    return b"\x00" * (len(ops) - 1) + last


def parse_tx(raw):
    """Legacy (non-witness) serialisation only."""
    o = 0
    version = raw[0:4]
    o = 4
    nin, o = read_varint(raw, o)
    vin = []
    for _ in range(nin):
        outpoint = raw[o:o + 36]
        o += 36
        sl, o = read_varint(raw, o)
        script = raw[o:o + sl]
        o += sl
        seq = raw[o:o + 4]
        o += 4
        vin.append((outpoint, script, seq))
    nout, o = read_varint(raw, o)
    vout = []
    for _ in range(nout):
        value = raw[o:o + 8]
        o += 8
        sl, o = read_varint(raw, o)
        spk = raw[o:o + sl]
        o += sl
        vout.append((value, spk))
    lock = raw[o:o + 4]
    o += 4
    if o != len(raw) or len(lock) != 4:
        raise ValueError("bad tx length")
    return version, vin, vout, lock


def serialize_tx(version, vin, vout, lock):
    out = bytearray(version)
    out += varint(len(vin))
    for outpoint, script, seq in vin:
        out += outpoint + varint(len(script)) + script + seq
    out += varint(len(vout))
    for value, spk in vout:
        out += value + varint(len(spk)) + spk
    out += lock
    return bytes(out)


def blank_tx(raw):
    version, vin, vout, lock = parse_tx(raw)
    vin2 = [(op, blank_script(sc), seq) for (op, sc, seq) in vin]
    return serialize_tx(version, vin2, vout, lock)


# ---- generator -------------------------------------------------------------

def gen_op(ch, big=False):
    k = ch.draw(12, "op.kind")
    if k in (0, 1, 2):
        n = ch.pick([0x47, 1, 0x48, 0x21, 0x4b, 2, 20], "op.direct.len")
        return ("push", "direct", ch.bytes(n, "op.data"))
    if k == 3:
        return ("op", 0x00)
    if k == 4:
        return ("op", 0x51 + ch.draw(16, "op.smallint"))
    if k == 5:
        return ("op", 0x4f)
    if k == 6:
        n = ch.pick([0x4c, 0x69, 0xff, 0, 5], "op.pd1.len")
        return ("push", "pd1", ch.bytes(n, "op.data"))
    if k == 7:
        n = ch.pick([0x100, 3, 0, 520] if not big else [0x100, 3000], "op.pd2.len")
        return ("push", "pd2", ch.bytes(n, "op.data"))
    if k == 8:
        n = ch.pick([4, 0, 0x4c], "op.pd4.len")
        return ("push", "pd4", ch.bytes(n, "op.data"))
    if k == 9:
        return ("op", ch.pick([0xae, 0xac, 0x87, 0x76, 0xa9, 0xff, 0xab], "op.nonpush"))
    if k == 10:
        # typical redeem script push (multisig) - PUSHDATA1 form as in the wild
        n = ch.pick([0x69, 0x47, 0x8b], "op.redeem.len")
        return ("push", "pd1" if n >= 0x4c else "direct", ch.bytes(n, "op.data"))
    return ("push", "direct", b"")      # encodes as 0x00 (= OP_0)


def gen_tx(ch, max_inputs=6, max_outputs=6):
    version = struct.pack("<i", ch.pick([1, 2], "tx.version"))
    nin = 1 + ch.draw(max_inputs, "tx.nin")
    vin = []
    shape = []
    for i in range(nin):
        outpoint = ch.bytes(32, "tx.prev") + struct.pack(
            "<I", ch.pick([0, 1, 0xffffffff, 7], "tx.previdx"))
        nops = 1 + ch.draw(8, "tx.nops")
        ops = [gen_op(ch) for _ in range(nops)]
        script = b"".join(encode_op(o) for o in ops)
        seq = ch.pick([b"\xff\xff\xff\xff", b"\xfe\xff\xff\xff", b"\x00\x00\x00\x00"],
                      "tx.seq")
        vin.append((outpoint, script, seq))
        shape.append(tuple(sorted(set(o[1] if o[0] == "push" else "op" for o in ops))))
    nout = ch.draw(max_outputs + 1, "tx.nout")
    vout = []
    for _ in range(nout):
        value = struct.pack("<q", ch.pick([0, 1, 2100000000000000, 50000], "tx.value"))
        spk = ch.bytes(ch.pick([25, 23, 0, 34], "tx.spklen"), "tx.spk")
        vout.append((value, spk))
    lock = struct.pack("<I", ch.pick([0, 1, 0xffffffff, 500000000], "tx.lock"))
    raw = serialize_tx(version, vin, vout, lock)
    return raw, {"nin": nin, "nout": nout, "forms": sorted(set(f for s in shape for f in s))}
