"""Reference decision for the verify_attestation commands (C08), written from
docs/attestation.md: given the stored certificate, the operator's public-keys
file and the root of trust, should verification succeed, and which values must it
print (the bytes at the documented offsets of the *signed* messages)?"""
import hashlib
import re

import ecdsa

from refs import att_ledger, att_sgx

UI_PATH = "m/44'/0'/0'/0/0"
UI_HEADER = re.compile(rb"^HSM:UI:[2345]\.[0-9]")
LEGACY_HEADER = re.compile(rb"^HSM:SIGNER:[2345]\.[0-9]")
POWHSM_HEADER = re.compile(rb"^POWHSM:5\.[0-9]::")
POWHSM_LEN = 3 + 32 + 32 + 32 + 8 + 8


def parse_keys(doc):
    """-> {path: (pub65, pub33)} or None"""
    if type(doc) is not dict or len(doc) == 0:
        return None
    out = {}
    for path, v in doc.items():
        if type(v) is not str:
            return None
        try:
            b = bytes.fromhex(v)
        except ValueError:
            return None
        p = att_ledger.parse_pubkey(b)
        if p is None:
            return None
        x, y = p.x().to_bytes(32, "big"), p.y().to_bytes(32, "big")
        out[path] = (b"\x04" + x + y, bytes([2 + (p.y() & 1)]) + x)
    return out


def keys_hash(keys):
    h = hashlib.sha256()
    for path in sorted(keys):
        h.update(keys[path][0])
    return h.digest()


def powhsm_fields(msg):
    m = POWHSM_HEADER.match(msg)
    if m is None:
        return None
    body = msg[len(m.group(0)):]
    if len(body) != POWHSM_LEN:
        return None
    return {"powhsm_version": m.group(0)[7:10].decode(), "platform": body[0:3].decode("ascii", "replace"),
            "ud": body[3:35].hex(), "keys_hash_in_message": body[35:67], "best_block": body[67:99].hex(),
            "last_tx": body[99:107].hex(), "timestamp": str(int.from_bytes(body[107:115], "big"))}


def ledger(cert_doc, keys_doc, root_hex):
    """-> (True, expected printed values) | (False, reason)"""
    try:
        rb = bytes.fromhex(root_hex)
    except (ValueError, TypeError):
        return (False, "root")
    if len(rb) == 0 or att_ledger.parse_pubkey(rb) is None:
        return (False, "root")
    keys = parse_keys(keys_doc)
    if keys is None:
        return (False, "keys-file")
    if UI_PATH not in keys:
        return (False, "no-btc-key")
    cert = att_ledger.load(cert_doc)
    if cert is None:
        return (False, "certificate")
    r = att_ledger.validate(cert, rb)
    if "ui" not in r or not r["ui"][0]:
        return (False, "ui-chain")
    if r["ui"][2] is None or len(bytes.fromhex(r["ui"][2])) != 32:
        return (False, "ui-tweak")        # the UI hash the tool vouches for is a 32-byte hash
    ui = bytes.fromhex(r["ui"][1])
    m = UI_HEADER.match(ui)
    if m is None:
        return (False, "ui-header")
    h = len(m.group(0))
    out = {"ui_ud": ui[h:h + 32].hex(), "ui_pubkey": ui[h + 32:h + 65].hex(),
           "ui_signer_hash": ui[h + 65:h + 97].hex(),
           "ui_signer_iteration": str(int.from_bytes(ui[h + 97:h + 99], "big")),
           "ui_hash": bytes.fromhex(r["ui"][2]).hex() if r["ui"][2] else None}
    if out["ui_pubkey"] != keys[UI_PATH][1].hex():
        return (False, "ui-key")
    if "signer" not in r or not r["signer"][0]:
        return (False, "signer-chain")
    if r["signer"][2] is None or len(bytes.fromhex(r["signer"][2])) != 32:
        return (False, "signer-tweak")
    sm = bytes.fromhex(r["signer"][1])
    kh = keys_hash(keys)
    lm = LEGACY_HEADER.match(sm)
    if lm is not None:
        rest = sm[len(lm.group(0)):]
        if len(rest) != 32:
            return (False, "signer-length")
        if rest != kh:
            return (False, "keys-hash")
    else:
        f = powhsm_fields(sm)
        if f is None:
            return (False, "signer-header-or-length")
        if f.pop("keys_hash_in_message") != kh:
            return (False, "keys-hash")
        f.pop("powhsm_version")
        out.update(f)
    out["keys_hash"] = kh.hex()
    out["signer_hash"] = bytes.fromhex(r["signer"][2]).hex() if r["signer"][2] else None
    return (True, out)


def sgx(cert_doc, keys_doc, root_der, now):
    try:
        root = att_sgx.X509(root_der)
    except Exception:
        root = None
    if root is None or not att_sgx.x509_valid(root, root, now):
        return (False, "root")
    keys = parse_keys(keys_doc)
    if keys is None:
        return (False, "keys-file")
    cert = att_sgx.load(cert_doc)
    if cert is None:
        return (False, "certificate")
    r = att_sgx.validate(cert, root_der, now)
    if "quote" not in r or not r["quote"][0] or r["quote"][1] is None:
        return (False, "chain")
    msg = bytes.fromhex(r["quote"][1]["message"])
    f = powhsm_fields(msg)
    if f is None:
        return (False, "header-or-length")
    kh = keys_hash(keys)
    if f.pop("keys_hash_in_message") != kh:
        return (False, "keys-hash")
    q = r["quote"][1]["quote"]
    f["keys_hash"] = kh.hex()
    f["mrenclave"] = q[48 + 64:48 + 96].hex()
    f["mrsigner"] = q[48 + 128:48 + 160].hex()
    return (True, f)
