"""Reference for C04, built from the firmware headers (status names/values) and
from docs/protocol.md / protocol-v1.md ("Error codes" paragraphs).

  documented(command, v1)        -> set of result codes the documents list
  GENERIC / GENERIC_V1           -> codes every operation may return
  mandatory(command, step, name) -> the one code a named cause must yield at a
                                    step where the firmware can raise it, or None
"""
import os
import re

from sim import boot

FW = os.path.join(boot.REPO, "firmware", "src")
DOCS = os.path.join(boot.REPO, "docs")

GENERIC = {-901, -902, -903, -904, -905, -906}
GENERIC_V1 = {-2, -666}


def _parse_enum(path):
    """name -> value for a C enum with explicit / implicit (previous+1) values."""
    out = {}
    src = open(path).read()
    src = re.sub(r"/\*.*?\*/", "", src, flags=re.S)
    src = re.sub(r"//[^\n]*", "", src)
    for body in re.findall(r"enum\s*\{(.*?)\}", src, flags=re.S):
        cur = -1
        for item in body.split(","):
            item = item.strip()
            if not item:
                continue
            m = re.match(r"(\w+)\s*(?:=\s*(0x[0-9a-fA-F]+|\d+))?$", item)
            if not m:
                continue
            if m.group(2) is not None:
                cur = int(m.group(2), 0)
            else:
                cur += 1
            out[m.group(1)] = cur
    return out


BC = _parse_enum(os.path.join(FW, "powhsm", "src", "bc_err.h"))
AUTH = _parse_enum(os.path.join(FW, "powhsm", "src", "auth.h"))
ERR = _parse_enum(os.path.join(FW, "powhsm", "src", "err.h"))
UI = _parse_enum(os.path.join(FW, "ledger", "ui", "src", "ui_err.h"))

NAMED = {}
for _tbl in (BC, AUTH, ERR, UI):
    for _k, _v in _tbl.items():
        if 0x6000 <= _v <= 0x6FFF:
            NAMED.setdefault(_v, _k)


def in_device_range(w):
    # "the device's own error range" (docs of the APDU layer: 0x69A0-0x6BFF, 0x6D00)
    return 0x69A0 <= w <= 0x6BFF or w == 0x6D00


_DOC_SECTIONS = {
    "version": "Get version", "sign": "Sign", "getPubKey": "Get public key",
    "advanceBlockchain": "Advance Blockchain",
    "resetAdvanceBlockchain": "Reset Advance Blockchain",
    "blockchainState": "Get Blockchain State", "updateAncestorBlock": "Update ancestor block",
    "blockchainParameters": "Get Blockchain Parameters", "signerHeartbeat": "Signer heartbeat",
    "uiHeartbeat": "UI heartbeat",
}


def _parse_doc():
    text = open(os.path.join(DOCS, "protocol.md")).read()
    out = {}
    for cmd, title in _DOC_SECTIONS.items():
        m = re.search(r"^### %s\s*$(.*?)(?=^### |\Z)" % re.escape(title), text, flags=re.S | re.M)
        if not m:
            raise RuntimeError("docs/protocol.md: section %r not found" % title)
        m2 = re.search(r"This operation can return (.*?)generic errors", m.group(1), flags=re.S)
        if not m2:
            raise RuntimeError("docs/protocol.md: no error-code sentence in %r" % title)
        out[cmd] = set(int(x) for x in re.findall(r"`(-?\d+)`", m2.group(1)))
    return out


DOCUMENTED = _parse_doc()
# protocol-v1.md: "0: Ok", "-2: General error in operation", "-666: Invalid version"
DOCUMENTED_V1 = {"version": {0}, "sign": {0}, "getPubKey": {0}}


def permitted(command, v1=False):
    if v1:
        return DOCUMENTED_V1[command] | GENERIC_V1
    return DOCUMENTED[command] | GENERIC


_ADV_BLOCK_INVALID = ["RLP_INVALID", "BLOCK_TOO_SHORT", "PARENT_HASH_INVALID", "BLOCK_NUM_INVALID",
                      "BLOCK_DIFF_INVALID", "UMM_ROOT_INVALID", "BTC_HEADER_INVALID",
                      "MERKLE_PROOF_INVALID", "MM_RLP_LEN_MISMATCH"]
_ADV_POW = ["BTC_DIFF_MISMATCH", "MERKLE_PROOF_MISMATCH", "MM_HASH_MISMATCH", "CB_TXN_HASH_MISMATCH"]
_ANC_BLOCK_INVALID = ["RLP_INVALID", "BLOCK_TOO_SHORT", "PARENT_HASH_INVALID",
                      "RECEIPT_ROOT_INVALID", "BTC_HEADER_INVALID", "BLOCK_NUM_INVALID",
                      "MM_RLP_LEN_MISMATCH"]

# (command, step class) -> {status name: mandatory code}.  Only causes the
# documentation names, only at steps where the firmware source raises them.
_M = {}


def _add(cmd, step, names, code):
    d = _M.setdefault((cmd, step), {})
    for n in names:
        d[n] = code


_add("advanceBlockchain", "block.chunk", _ADV_BLOCK_INVALID, -204)
_add("advanceBlockchain", "block.chunk", _ADV_POW, -202)
_add("advanceBlockchain", "block.chunk", ["CHAIN_MISMATCH"], -201)
_add("advanceBlockchain", "brother.chunk", _ADV_BLOCK_INVALID, -204)
_add("advanceBlockchain", "brother.chunk", _ADV_POW, -202)
_add("advanceBlockchain", "brother.chunk",
     ["BROTHER_PARENT_MISMATCH", "BROTHER_SAME_AS_BLOCK", "BROTHER_ORDER_INVALID"], -205)
_add("advanceBlockchain", "brolist", ["BROTHERS_TOO_MANY"], -205)
_add("updateAncestorBlock", "block.chunk", _ANC_BLOCK_INVALID, -204)
_add("updateAncestorBlock", "block.chunk", ["CHAIN_MISMATCH"], -201)
_add("updateAncestorBlock", "block.chunk", ["ANCESTOR_TIP_MISMATCH"], -203)
# sign: "wrong authorization" = receipt / merkle-proof errors, "invalid message" = tx errors,
# "invalid key id" = path errors (auth_path.c, auth_tx.c, auth_receipt.c, auth_trie.c)
_add("sign", "path", ["ERR_AUTH_INVALID_PATH"], -103)
_add("sign", "tx", ["ERR_AUTH_TX_HASH_MISMATCH", "ERR_AUTH_INVALID_TX_VERSION",
                    "ERR_AUTH_INVALID_TX_INPUT_INDEX",
                    "ERR_AUTH_INVALID_SIGHASH_COMPUTATION_MODE",
                    "ERR_AUTH_INVALID_EXTRADATA_SIZE"], -102)
_add("sign", "receipt", ["ERR_AUTH_RECEIPT_RLP", "ERR_AUTH_RECEIPT_INVALID"], -101)
_add("sign", "merkle", ["ERR_AUTH_NODE_INVALID_VERSION", "ERR_AUTH_RECEIPT_HASH_MISMATCH",
                        "ERR_AUTH_NODE_CHAINING_MISMATCH", "ERR_AUTH_RECEIPT_ROOT_MISMATCH"], -101)
_add("sign.hash", "path", ["ERR_AUTH_INVALID_PATH"], -103)
# auth.c raises this one when the payload after the path of a hash-only key is not a 32-byte hash:
# the message is what is wrong ("invalid message"), not the key id
_add("sign.hash", "path", ["ERR_AUTH_INVALID_DATA_SIZE_UNAUTH_SIGN"], -102)
_add("getPubKey", "pubkey", ["ERR_INVALID_PATH"], -103)

_ALL = {}
_ALL.update(BC)
_ALL.update(AUTH)
_ALL.update(ERR)


def mandatory(command, step_class, sw, v1=False):
    """-> (code, name) or None"""
    d = _M.get((command, step_class))
    if not d:
        return None
    for name, code in d.items():
        if _ALL.get(name) == sw:
            if v1:
                return (-2, name)
            return (code, name)
    return None


def interesting_status_words():
    ws = set(NAMED)
    for b in (0x69A0, 0x6BFF, 0x6D00):
        ws.update((b - 1, b, b + 1))
    ws.update([0x6A00, 0x6B00, 0x6982, 0x6985, 0x6E00, 0x6E11, 0x6F00, 0x6F01, 0x6700, 0x0000,
               0xFFFF, 0x9001, 0x6800, 0x6983])
    return sorted(w for w in ws if 0 <= w <= 0xFFFF)
