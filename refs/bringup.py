"""Reference decision function for C09, written from the property text only.

cfg keys: platform, pin_file {"valid","absent","invalid","forced"}, onboarded {"yes","no","error"},
mode {"bootloader","signer","ui-heartbeat","unknown","other"}, ui_version, signer_version,
retries, retries_error, echo_ok, unlock_ok, post_exit {"signer","bootloader","ui-heartbeat","gone"}.
"""
MANAGER_VERSION = (5, 4, 1)


def supported(v):
    return v[0] == MANAGER_VERSION[0] and (v[1], v[2]) <= (MANAGER_VERSION[1], MANAGER_VERSION[2])


def unlock_allowed(c):
    if not c.get("present", True):
        return False
    if c["platform"] == "tcp":
        return False                       # no PIN is configured for the TCPSigner manager
    if c["pin_file"] == "invalid":
        return False
    return (c["onboarded"] == "yes" and c["mode"] == "bootloader" and supported(c["ui_version"])
            and c["echo_ok"] and not c.get("retries_error") and c["retries"] >= 2)


def needs_change(c):
    return c["pin_file"] in ("absent", "forced")


def serves(c):
    """-> True / False / None (None: the property does not decide, e.g. unreadable PIN file
    with a device that is already in signer mode)"""
    if not c.get("present", True):
        return False
    if c["platform"] != "tcp" and c["pin_file"] == "invalid":
        return False if c["mode"] != "signer" or c["onboarded"] != "yes" else None
    if c["onboarded"] != "yes":
        return False
    mode = c["mode"]
    if mode == "bootloader":
        if not unlock_allowed(c) or not c["unlock_ok"]:
            return False
        if needs_change(c):
            return False
        if c["platform"] == "sgx":
            # unlocking the enclave is what leaves bootloader mode - what it reports afterwards is what
            # counts (a signer, unless the run says otherwise)
            mode = c.get("sgx_post_unlock", "signer")
        else:
            mode = c["post_exit"]
    if mode != "signer":
        return False
    return supported(c["signer_version"])
