"""Simulated Intel-like PKI and DCAP-style quote envelope for the SGX attestation
checks: a small DER encoder, deterministic (RFC 6979) ECDSA with the pure-Python
`ecdsa` package, PEM chains, and the envelope layout of sgx/envelope.py's
structures (written here from OpenEnclave's sgxtypes.h field list, independently
of the CStruct parser under test)."""
import base64
import hashlib
import struct
import time as _time

import ecdsa

P256 = ecdsa.NIST256p
P384 = ecdsa.NIST384p

OID_ECDSA_SHA256 = bytes.fromhex("2a8648ce3d040302")
OID_ECDSA_SHA384 = bytes.fromhex("2a8648ce3d040303")
OID_EC_PUBKEY = bytes.fromhex("2a8648ce3d0201")
OID_P256 = bytes.fromhex("2a8648ce3d030107")
OID_P384 = bytes.fromhex("2b81040022")
OID_CN = bytes.fromhex("550403")


def der_len(n):
    if n < 128:
        return bytes([n])
    b = n.to_bytes((n.bit_length() + 7) // 8, "big")
    return bytes([0x80 | len(b)]) + b


def tlv(tag, body):
    return bytes([tag]) + der_len(len(body)) + body


def der_int(v):
    b = v.to_bytes(max(1, (v.bit_length() + 8) // 8), "big")
    return tlv(0x02, b)


def der_oid(o):
    return tlv(0x06, o)


def der_name(cn):
    return tlv(0x30, tlv(0x31, tlv(0x30, der_oid(OID_CN) + tlv(0x0C, cn.encode()))))


def der_time(ts):
    t = _time.gmtime(ts)
    if 1950 <= t.tm_year < 2050:
        return tlv(0x17, _time.strftime("%y%m%d%H%M%SZ", t).encode())
    return tlv(0x18, _time.strftime("%Y%m%d%H%M%SZ", t).encode())


def spki(vk):
    curve_oid = OID_P256 if vk.curve == P256 else OID_P384
    point = b"\x04" + vk.to_string()
    return tlv(0x30, tlv(0x30, der_oid(OID_EC_PUBKEY) + der_oid(curve_oid)) + tlv(0x03, b"\x00" + point))


def sk_from(seed, curve=P256):
    n = curve.order
    d = int.from_bytes(hashlib.sha512(seed).digest(), "big") % (n - 1) + 1
    return ecdsa.SigningKey.from_secret_exponent(d, curve=curve)


def sign_der(sk, data, hashfunc=hashlib.sha256):
    return sk.sign_deterministic(data, hashfunc=hashfunc, sigencode=ecdsa.util.sigencode_der)


def make_cert(subject_cn, subject_vk, issuer_cn, issuer_sk, not_before, not_after, serial=1,
              sha384=False):
    alg = tlv(0x30, der_oid(OID_ECDSA_SHA384 if sha384 else OID_ECDSA_SHA256))
    tbs = tlv(0x30,
              tlv(0xA0, der_int(2)) + der_int(serial) + alg + der_name(issuer_cn) +
              tlv(0x30, der_time(not_before) + der_time(not_after)) + der_name(subject_cn) +
              spki(subject_vk))
    sig = sign_der(issuer_sk, tbs, hashlib.sha384 if sha384 else hashlib.sha256)
    return tlv(0x30, tbs + alg + tlv(0x03, b"\x00" + sig))


def pem(der):
    b = base64.b64encode(der).decode()
    lines = [b[i:i + 64] for i in range(0, len(b), 64)]
    return "-----BEGIN CERTIFICATE-----\n" + "\n".join(lines) + "\n-----END CERTIFICATE-----\n"


class Pki:
    """root -> (platform CA) -> PCK leaf; windows relative to `now`."""

    def __init__(self, seed, now, windows=None, ca_curve=P256, leaf_curve=P256):
        day = 86400.0
        w = {"root": (-400 * day, 4000 * day), "ca": (-300 * day, 3000 * day),
             "leaf": (-30 * day, 300 * day)}
        if windows:
            w.update(windows)
        self.now = now
        self.root_sk = sk_from(b"root" + seed)
        self.ca_sk = sk_from(b"ca" + seed, ca_curve)
        self.leaf_sk = sk_from(b"leaf" + seed, leaf_curve)
        self.root_der = make_cert("Sim SGX Root CA", self.root_sk.verifying_key, "Sim SGX Root CA",
                                  self.root_sk, now + w["root"][0], now + w["root"][1], 1)
        self.ca_der = make_cert("Sim SGX Platform CA", self.ca_sk.verifying_key, "Sim SGX Root CA",
                                self.root_sk, now + w["ca"][0], now + w["ca"][1], 2)
        self.leaf_der = make_cert("Sim SGX PCK Certificate", self.leaf_sk.verifying_key,
                                  "Sim SGX Platform CA", self.ca_sk, now + w["leaf"][0],
                                  now + w["leaf"][1], 3, sha384=(ca_curve == P384))
        self.windows = w

    def chain_pem(self, include_root=True):
        s = pem(self.leaf_der) + pem(self.ca_der)
        if include_root:
            s += pem(self.root_der)
        return s.encode()


def report_body(report_data64, mrenclave=b"\x11" * 32, mrsigner=b"\x22" * 32, filler=0):
    f = bytes([filler])
    body = (f * 16 + struct.pack("<I", 0) + f * 12 + f * 16 + struct.pack("<QQ", 7, 3) +
            mrenclave + f * 32 + mrsigner + f * 32 + f * 64 + struct.pack("<HHH", 1, 2, 3) +
            f * 42 + f * 16 + report_data64)
    assert len(body) == 384
    return body


def build_envelope(pki, att_sk, custom_message, qe_auth=b"", mrenclave=b"\x11" * 32,
                   mrsigner=b"\x22" * 32, include_root=True, cert_type=5):
    """The quote the enclave returns: sgx_quote_t | signature_len | auth data | QE auth data |
    QE certification data | custom message."""
    rd = hashlib.sha256(custom_message).digest() + b"\x00" * 32
    quote = struct.pack("<HHIHH", 3, 2, 0, 1, 2) + b"\xaa" * 16 + b"\xbb" * 20 + \
        report_body(rd, mrenclave, mrsigner)
    assert len(quote) == 432
    att_vk = att_sk.verifying_key
    quote_sig = att_sk.sign_deterministic(quote, hashfunc=hashlib.sha256,
                                          sigencode=ecdsa.util.sigencode_string)
    qe_rd = hashlib.sha256(att_vk.to_string() + qe_auth).digest() + b"\x00" * 32
    qe_rb = report_body(qe_rd, b"\x33" * 32, b"\x44" * 32, filler=1)
    qe_sig = pki.leaf_sk.sign_deterministic(qe_rb, hashfunc=hashlib.sha256,
                                            sigencode=ecdsa.util.sigencode_string)
    auth = quote_sig + att_vk.to_string() + qe_rb + qe_sig
    certs = pki.chain_pem(include_root)
    tail = struct.pack("<H", len(qe_auth)) + qe_auth + struct.pack("<HI", cert_type, len(certs)) + certs
    siglen = len(auth) + len(tail)
    return quote + struct.pack("<I", siglen) + auth + tail + custom_message
