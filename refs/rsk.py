"""Independent RLP encoder, SHA-256 compression function and RSK block header
generator for the C05 oracle (nothing shared with ledger/block_utils.py,
comm/pow.py or thirdparty/sha256.py)."""
import hashlib
import struct

from Crypto.Hash import keccak as _keccak


def keccak256(b):
    return _keccak.new(digest_bits=256).update(b).digest()


# ------------------------------------------------------------------ RLP

def _len_prefix(n, short_base, long_base):
    if n < 56:
        return bytes([short_base + n])
    nb = n.to_bytes((n.bit_length() + 7) // 8, "big")
    return bytes([long_base + len(nb)]) + nb


def rlp_bytes(b):
    if len(b) == 1 and b[0] < 0x80:
        return bytes(b)
    return _len_prefix(len(b), 0x80, 0xb7) + bytes(b)


def rlp_list_of_encoded(items):
    payload = b"".join(items)
    return _len_prefix(len(payload), 0xc0, 0xf7) + payload, len(payload)


def rlp_list(fields):
    return rlp_list_of_encoded([rlp_bytes(f) for f in fields])


# ------------------------------------------------------------------ SHA-256 core

_K = [
    0x428a2f98, 0x71374491, 0xb5c0fbcf, 0xe9b5dba5, 0x3956c25b, 0x59f111f1, 0x923f82a4,
    0xab1c5ed5, 0xd807aa98, 0x12835b01, 0x243185be, 0x550c7dc3, 0x72be5d74, 0x80deb1fe,
    0x9bdc06a7, 0xc19bf174, 0xe49b69c1, 0xefbe4786, 0x0fc19dc6, 0x240ca1cc, 0x2de92c6f,
    0x4a7484aa, 0x5cb0a9dc, 0x76f988da, 0x983e5152, 0xa831c66d, 0xb00327c8, 0xbf597fc7,
    0xc6e00bf3, 0xd5a79147, 0x06ca6351, 0x14292967, 0x27b70a85, 0x2e1b2138, 0x4d2c6dfc,
    0x53380d13, 0x650a7354, 0x766a0abb, 0x81c2c92e, 0x92722c85, 0xa2bfe8a1, 0xa81a664b,
    0xc24b8b70, 0xc76c51a3, 0xd192e819, 0xd6990624, 0xf40e3585, 0x106aa070, 0x19a4c116,
    0x1e376c08, 0x2748774c, 0x34b0bcb5, 0x391c0cb3, 0x4ed8aa4a, 0x5b9cca4f, 0x682e6ff3,
    0x748f82ee, 0x78a5636f, 0x84c87814, 0x8cc70208, 0x90befffa, 0xa4506ceb, 0xbef9a3f7,
    0xc67178f2]
_IV = [0x6a09e667, 0xbb67ae85, 0x3c6ef372, 0xa54ff53a, 0x510e527f, 0x9b05688c, 0x1f83d9ab,
       0x5be0cd19]
_M = 0xffffffff


def _rr(x, n):
    return ((x >> n) | (x << (32 - n))) & _M


def sha256_compress(h, block):
    w = list(struct.unpack(">16I", block))
    for i in range(16, 64):
        s0 = _rr(w[i - 15], 7) ^ _rr(w[i - 15], 18) ^ (w[i - 15] >> 3)
        s1 = _rr(w[i - 2], 17) ^ _rr(w[i - 2], 19) ^ (w[i - 2] >> 10)
        w.append((w[i - 16] + s0 + w[i - 7] + s1) & _M)
    a, b, c, d, e, f, g, hh = h
    for i in range(64):
        S1 = _rr(e, 6) ^ _rr(e, 11) ^ _rr(e, 25)
        chv = (e & f) ^ (~e & _M & g)
        t1 = (hh + S1 + chv + _K[i] + w[i]) & _M
        S0 = _rr(a, 2) ^ _rr(a, 13) ^ _rr(a, 22)
        mj = (a & b) ^ (a & c) ^ (b & c)
        t2 = (S0 + mj) & _M
        hh, g, f, e, d, c, b, a = g, f, e, (d + t1) & _M, c, b, a, (t1 + t2) & _M
    return [(x + y) & _M for x, y in zip(h, [a, b, c, d, e, f, g, hh])]


def compress_coinbase(full_tx, split):
    """RSK 'compressed' coinbase: 8-byte big-endian count of bytes already
    hashed, the 32-byte SHA-256 midstate after them, then the remaining tail."""
    assert split % 64 == 0 and split <= len(full_tx)
    h = list(_IV)
    for o in range(0, split, 64):
        h = sha256_compress(h, full_tx[o:o + 64])
    return struct.pack(">Q", split) + struct.pack(">8I", *h) + full_tx[split:]


def coinbase_hash(full_tx):
    return hashlib.sha256(hashlib.sha256(full_tx).digest()).digest()[::-1]


# ------------------------------------------------------------------ headers

def gen_field(ch, label, sizes):
    n = ch.pick(sizes, label + ".len")
    b = ch.bytes(n, label)
    return b


def gen_header(ch, nfields=None, parent=None, tiny=False, max_cb=600):
    """Returns dict: raw (client bytes), fields, nfields, full coinbase tx."""
    if nfields is None:
        nfields = ch.pick([19, 20, 17, 18], "hdr.nfields")
    nbase = 16 if nfields in (17, 19) else 17
    fields = []
    if tiny:
        for i in range(nbase):
            fields.append(gen_field(ch, "hdr.tiny", [0, 1, 2]))
    else:
        fields.append(parent if parent is not None else ch.bytes(32, "hdr.parent"))
        fields.append(ch.bytes(32, "hdr.uncles"))
        fields.append(ch.bytes(20, "hdr.coinbase"))
        fields.append(ch.bytes(32, "hdr.state"))
        fields.append(ch.bytes(32, "hdr.txroot"))
        fields.append(ch.bytes(32, "hdr.rcroot"))
        fields.append(gen_field(ch, "hdr.bloom", [256, 256, 0, 55, 56]))
        fields.append(gen_field(ch, "hdr.diff", [3, 1, 32, 8]))
        fields.append(gen_field(ch, "hdr.num", [3, 1, 4]))
        fields.append(gen_field(ch, "hdr.gaslimit", [3, 4]))
        fields.append(gen_field(ch, "hdr.gasused", [0, 1, 3]))
        fields.append(gen_field(ch, "hdr.ts", [4]))
        fields.append(gen_field(ch, "hdr.extra", [0, 1, 32, 55, 56, 300]))
        fields.append(gen_field(ch, "hdr.fees", [0, 1, 5]))
        fields.append(gen_field(ch, "hdr.mgp", [0, 1, 4]))
        fields.append(gen_field(ch, "hdr.unclecount", [0, 1]))
        if nbase == 17:
            fields.append(gen_field(ch, "hdr.umm", [20, 0]))
    # strip accidental leading-zero single bytes is unnecessary: fields are byte strings
    mmhdr = ch.bytes(ch.pick([80, 80, 80, 79, 81, 0], "hdr.mmhdr.len"), "hdr.mmhdr")
    fields.append(mmhdr)
    full_cb = None
    if nfields in (19, 20):
        proof = ch.bytes(32 * ch.pick([0, 1, 3, 12], "hdr.proof.n"), "hdr.proof")
        cblen = ch.pick([65, 128, 129, 200, 64 * 3, max_cb], "hdr.cb.len")
        full_cb = ch.bytes(cblen, "hdr.cb")
        nsplit = (cblen - 1) // 64
        split = 64 * ch.draw(nsplit + 1, "hdr.cb.split")
        fields.append(proof)
        fields.append(compress_coinbase(full_cb, split))
    raw, _ = rlp_list(fields)
    return {"raw": raw, "fields": fields, "nfields": nfields, "full_cb": full_cb}


def twin_header(ch, hdr, max_cb=600):
    """Same hashed fields (so the same block hash), another merkle proof and coinbase transaction:
    what a client sends when it retries a header with a corrected merge-mining proof."""
    if hdr["nfields"] not in (19, 20):
        return hdr
    fields = list(hdr["fields"][:-2])
    proof = ch.bytes(32 * ch.pick([0, 1, 3, 12], "twin.proof.n"), "twin.proof")
    cblen = ch.pick([65, 128, 129, 200, 64 * 3, max_cb], "twin.cb.len")
    full_cb = ch.bytes(cblen, "twin.cb")
    split = 64 * ch.draw((cblen - 1) // 64 + 1, "twin.cb.split")
    fields.append(proof)
    fields.append(compress_coinbase(full_cb, split))
    raw, _ = rlp_list(fields)
    return {"raw": raw, "fields": fields, "nfields": hdr["nfields"], "full_cb": full_cb}


def mm_payload_len(hdr):
    n = hdr["nfields"]
    base = hdr["fields"][:-3] if n in (19, 20) else hdr["fields"][:-1]
    return rlp_list(base)[1]


def stripped(hdr):
    """Block as relayed for ancestor updates: without merkle proof and coinbase."""
    if hdr["nfields"] in (19, 20):
        return rlp_list(hdr["fields"][:-2])[0]
    return hdr["raw"]


def block_hash(hdr):
    return keccak256(stripped(hdr))
