"""Independent Intel-HEX writer for C17 / C19: data areas in one or several 64 KiB
zones, record lengths drawn per record, areas written in any order."""
import hashlib


def _rec(count, addr, rtype, data):
    body = bytes([count, (addr >> 8) & 0xff, addr & 0xff, rtype]) + data
    cks = (-sum(body)) & 0xff
    return ":" + (body + bytes([cks])).hex().upper()


def gen_areas(ch, max_areas=8):
    """-> list of (start, data), non-overlapping, not adjacent (gaps >= 1 byte)."""
    n = 1 + ch.draw(max_areas, "hex.nareas")
    areas = []
    cursor = ch.pick([0xC0D00000, 0x00000000, 0xC0D0FF00, 0x0000FFF0], "hex.base")
    for i in range(n):
        gap = ch.pick([1, 16, 0x100, 0x10000, 3], "hex.gap") if i else 0
        cursor += gap
        ln = ch.pick([1, 16, 100, 255, 256, 1000, 0x1234, 4096, 8192, 0x10000, 4095, 4097, 64],
                     "hex.len")
        data = ch.bytes(ln, "hex.data") if ln <= 64 else \
            hashlib.shake_256(ch.bytes(8, "hex.dataseed")).digest(ln)
        areas.append((cursor & 0xFFFFFFFF, data))
        cursor += ln
    return areas


def write(ch, areas, eol="\n", with_start_record=False):
    """One concrete file for the areas: write order and record sizes are drawn."""
    order = ch.shuffle(list(range(len(areas))), "hex.order")
    lines = []
    for idx in order:
        start, data = areas[idx]
        pos = 0
        zone = None
        while pos < len(data):
            addr = start + pos
            z = (addr >> 16) & 0xFFFF
            if z != zone:
                lines.append(_rec(2, 0, 0x04, bytes([z >> 8, z & 0xff])))
                zone = z
            room = 0x10000 - (addr & 0xFFFF)
            n = min(len(data) - pos, room, ch.pick([16, 32, 255, 1, 7, 64], "hex.reclen"))
            lines.append(_rec(n, addr & 0xFFFF, 0x00, data[pos:pos + n]))
            pos += n
        # close the zone so that the next area starts a fresh one even in the same 64 KiB
        zone = None
    if with_start_record:
        lines.append(_rec(4, 0, 0x05, (areas[0][0]).to_bytes(4, "big")))
    lines.append(_rec(0, 0, 0x01, b""))
    return (eol.join(lines) + eol).encode()


def reference_hash(areas):
    h = hashlib.sha256()
    for start, data in sorted(areas, key=lambda a: a[0]):
        h.update(data)
    return h.digest()
