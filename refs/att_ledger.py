"""Independent reference verifier for version-1 (Ledger) attestation certificates
(C06, C15, C08).  Pure-Python `ecdsa` for the curve arithmetic, own strict-DER
signature parser, own HMAC tweak computation - nothing shared with
admin/certificate_v1.py or the secp256k1 binding it uses.

load(doc)                      -> Cert or None (the document must be refused)
validate(cert, root_pub_bytes) -> {target: (True, message_hex, tweak_hex|None) | (False, name)}
"""
import hashlib
import hmac

import ecdsa
from ecdsa.ellipticcurve import Point

CURVE = ecdsa.SECP256k1
N = CURVE.order
G = CURVE.generator
VALID_NAMES = ["device", "attestation", "ui", "signer"]
HEX = set("0123456789abcdefABCDEF")
WS = set(" \t\n\r\x0b\x0c")


def _hexbytes(v):
    """bytes.fromhex semantics (ASCII white space between bytes tolerated)."""
    if type(v) is not str:
        return None
    try:
        return bytes.fromhex(v)
    except ValueError:
        return None


def _nonempty_hex(v):
    b = _hexbytes(v)
    return b is not None and len(b) > 0


class Elem:
    def __init__(self, d):
        self.name = d["name"]
        self.signed_by = d["signed_by"]
        self.message = d["message"]
        self.signature = d["signature"]
        self.tweak = d.get("tweak")


class Cert:
    def __init__(self):
        self.targets = []
        self.elements = {}


def load(doc):
    """Mirrors the documented file format (docs/attestation.md): refuse what is not
    a version-1 certificate whose targets all have a path to the root."""
    if type(doc) is not dict or doc.get("version") != 1:
        return None
    if type(doc.get("targets")) is not list or "elements" not in doc:
        return None
    c = Cert()
    c.targets = doc["targets"]
    try:
        for item in doc["elements"]:
            if type(item) is not dict:
                return None
            if item.get("name") not in VALID_NAMES or "signed_by" not in item:
                return None
            if "tweak" in item and not _nonempty_hex(item["tweak"]):
                return None
            if not _nonempty_hex(item.get("message")) or not _nonempty_hex(item.get("signature")):
                return None
            c.elements[item["name"]] = Elem(item)
    except TypeError:
        return None
    for t in c.targets:
        try:
            if t not in c.elements:
                return None
        except TypeError:
            return None
        seen = []
        cur = c.elements[t]
        while True:
            if cur.name in seen:
                return None
            if cur.signed_by == "root":
                break
            try:
                if cur.signed_by not in c.elements:
                    return None
            except TypeError:
                return None
            seen.append(cur.name)
            cur = c.elements[cur.signed_by]
    return c


def parse_pubkey(b):
    """33-byte compressed / 65-byte uncompressed or hybrid SEC1 point on secp256k1."""
    try:
        if len(b) == 33 and b[0] in (2, 3):
            return ecdsa.VerifyingKey.from_string(b, curve=CURVE).pubkey.point
        if len(b) == 65 and b[0] in (4, 6, 7):
            x = int.from_bytes(b[1:33], "big")
            y = int.from_bytes(b[33:], "big")
            if b[0] in (6, 7) and (y & 1) != (b[0] & 1):
                return None
            if not CURVE.curve.contains_point(x, y):
                return None
            return Point(CURVE.curve, x, y, N)
    except Exception:
        return None
    return None


def _der_len(b, o):
    if o >= len(b):
        return None
    b1 = b[o]
    o += 1
    if b1 == 0xFF:
        return None
    if b1 & 0x80 == 0:
        return b1, o
    if b1 == 0x80:
        return None
    n = b1 & 0x7F
    if n > len(b) - o or b[o] == 0 or n > 8:
        return None
    v = int.from_bytes(b[o:o + n], "big")
    o += n
    if v < 128:
        return None
    return v, o


def _der_int(b, o):
    if o >= len(b) or b[o] != 0x02:
        return None
    r = _der_len(b, o + 1)
    if r is None:
        return None
    ln, o = r
    if ln == 0 or ln > len(b) - o:
        return None
    body = b[o:o + ln]
    if body[0] == 0x00 and ln > 1 and body[1] & 0x80 == 0:
        return None
    if body[0] == 0xFF and ln > 1 and body[1] & 0x80:
        return None
    overflow = bool(body[0] & 0x80)
    v = int.from_bytes(body, "big")
    if len(body.lstrip(b"\x00")) > 32:
        overflow = True
    return (0 if overflow else v), o + ln


def parse_der_sig(sig):
    """Strict DER as libsecp256k1 parses it; -> (r, s) or None."""
    if len(sig) < 2 or sig[0] != 0x30:
        return None
    r = _der_len(sig, 1)
    if r is None:
        return None
    ln, o = r
    if ln != len(sig) - o:
        return None
    a = _der_int(sig, o)
    if a is None:
        return None
    rv, o = a
    c = _der_int(sig, o)
    if c is None:
        return None
    sv, o = c
    if o != len(sig):
        return None
    return rv, sv


def verify(point, message, sig):
    rs = parse_der_sig(sig)
    if rs is None:
        return False
    r, s = rs
    if not (1 <= r < N and 1 <= s < N) or s > N // 2:
        return False          # libsecp256k1 only accepts normalised (low-S) signatures
    try:
        vk = ecdsa.VerifyingKey.from_public_point(point, curve=CURVE)
        return vk.verify_digest(ecdsa.util.sigencode_string(r, s, N),
                                hashlib.sha256(message).digest(),
                                sigdecode=ecdsa.util.sigdecode_string)
    except Exception:
        return False


def value_of(e):
    m = _hexbytes(e.message)
    if e.name == "device":
        return m[-65:]
    if e.name == "attestation":
        return m[1:]
    return m


def elem_valid(e, certifier_point):
    if certifier_point is None:
        return False
    point = certifier_point
    if e.tweak is not None:
        cb = b"\x04" + point.x().to_bytes(32, "big") + point.y().to_bytes(32, "big")
        t = int.from_bytes(hmac.new(_hexbytes(e.tweak), cb, hashlib.sha256).digest(), "big")
        if t >= N:
            return False
        point = point + G * t
        if point == ecdsa.ellipticcurve.INFINITY:
            return False
    return verify(point, _hexbytes(e.message), _hexbytes(e.signature))


def validate(cert, root_pub):
    root_point = parse_pubkey(root_pub)
    out = {}
    for t in cert.targets:
        chain = []
        cur = cert.elements[t]
        while cur.signed_by != "root":
            chain.append(cur)
            cur = cert.elements[cur.signed_by]
        chain.append(cur)
        chain.reverse()                      # from the root down to the target
        certifier = root_point
        res = None
        for e in chain:
            if not elem_valid(e, certifier):
                res = (False, e.name)
                break
            certifier = parse_pubkey(value_of(e))
        if res is None:
            leaf = chain[-1]
            tw = leaf.tweak
            res = (True, value_of(leaf).hex(), tw)
        out[t] = res
    return out
