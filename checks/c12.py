"""C12 - concurrent clients never interleave on the device.

Full-server simulation: 2..16 client tasks, each issuing one multi-APDU request
with unique contents, against the real server class named by comm.server under
the seeded scheduler; every device exchange is two pre-emption points plus a
drawn latency.  Oracle: per-request contiguity of the tagged device log, every
client gets the reply to its own request."""
import hashlib
import json

from sim import boot
boot.boot()

from sim import batch                        # noqa: E402
from sim.choices import Choices              # noqa: E402
from sim.serverworld import ServerWorld, StepCap   # noqa: E402
from sim.mutate import patch_function        # noqa: E402
from sim.devices.ledger import der_for       # noqa: E402
from refs import rsk                         # noqa: E402
from checks import c01, c05                  # noqa: E402

PROPERTY = "C12"
LEVEL = "exploration"
WORKERS = 24
RULE = ("one run = one manager (real comm.server.TCPServer.run and the socketserver class it names) "
        "with 2..16 simulated clients connecting at drawn instants and each sending one request with "
        "unique contents (sign hash / authorized sign / advanceBlockchain / updateAncestorBlock / "
        "blockchainState / signerHeartbeat / uiHeartbeat / getPubKey), lines optionally fragmented; device "
        "speed drawn per run (fast / mixed / slow: answers up to 6 s); one run in three injects one link "
        "fault, a fatal status word or a device-range error status at a drawn exchange; the cyclic garbage "
        "collector is off during a run and, one run in three, invoked at drawn device exchanges inside the "
        "serving thread (APDUs sent by a finalizer are tagged as nobody's request); device answers "
        "after drawn latencies; the scheduler draws which task runs at every yield and which queued "
        "connection is accepted; non-trivial = at least two requests were in flight or queued at the "
        "same time; distinct = (accept order, backlog depth at each accept, schedule decision hash)")
TIERS = {"quick": {"runs": 8000, "wall": 240}, "thorough": {"runs": 300000, "wall": 3000}}
MUTANT_RUNS = 400
COMPONENTS = {
    "real": ["comm.server (TCPServer.run, _TCPServerRequestHandler, _RequestHandler)",
             "socketserver (whatever class comm.server instantiates; serve_forever, process_request)",
             "ledger.protocol", "ledger.hsm2dongle", "ledgerblue HID transport"],
    "stub": ["client sockets / listener / selector (SimNet)", "threading primitives (baton scheduler)",
             "hid link with drawn latencies and 0..1 injected link fault (read / write error, silence)", "Signer model (record-only, request-derived signatures)",
             "clock"],
}
ASSUMPTIONS = [
    "pre-emption at seam granularity (socket operations, device exchanges, sleeps, thread start/join)",
    "a forking server cannot be simulated in-process: reported as harness error, not guessed",
]


def SIM_CFG(tier):
    return {"max_clients": 16 if tier == "thorough" else 8}


def make_request(ch, i, uihb=True):
    """-> (request, checker(reply) -> reason|None, kind)"""
    kind = ch.pick(["sign.hash", "sign.auth", "advance", "ancestor", "state", "heartbeat", "pubkey",
                    "sign.hash", "sign.auth"] + (["uiheartbeat"] if uihb else ["state"]), "req.kind")
    if kind == "sign.hash":
        h = hashlib.sha256(b"c12" + bytes([i]) + ch.bytes(4, "uniq")).digest()
        path = c01.PATHS[2 + ch.draw(4, "path")]
        der = der_for(c01.path_bytes(path) + h)
        req = {"command": "sign", "keyId": path, "message": {"hash": h.hex()}, "version": 5}

        def chk(rep):
            if rep.get("errorcode") != 0 or rep.get("signature") != {
                    "r": der[4:36].hex(), "s": der[38:70].hex()}:
                return "expected the signature over this client's hash, got %r" % (rep,)
        return req, chk, kind
    if kind == "sign.auth":
        sub = Choices(seed=ch.draw(1 << 30, "auth.seed"))
        cfg = {"max_inputs": 2, "max_outputs": 2, "max_nodes": 3, "big": False}
        while True:
            req, exp, info = c01.gen_request(sub, cfg, False)
            if info["kind"] != "hash" and info["path"] in c01.PATHS[:2]:
                break
        der = der_for(exp["path"] + exp["tx"] + exp["receipt"] + exp["merkle"])

        def chk(rep):
            if rep.get("errorcode") != 0 or rep.get("signature") != {
                    "r": der[4:36].hex(), "s": der[38:70].hex()}:
                return "expected the signature over this client's transaction, got %r" % (
                    str(rep)[:200],)
        return req, chk, kind
    if kind in ("advance", "ancestor"):
        sub = Choices(seed=ch.draw(1 << 30, "blk.seed"))
        req, exp, info = c05.gen_blocks_request(sub, {"max_blocks": 2, "max_bro": 1, "max_cb": 100},
                                                ancestor=(kind == "ancestor"))

        def chk(rep):
            if rep.get("errorcode") not in (0, 1):
                return "expected success, got %r" % (rep,)
        return req, chk, kind
    if kind == "state":
        return {"command": "blockchainState", "version": 5}, \
            (lambda rep: None if rep.get("errorcode") == 0 else "got %r" % (rep,)), kind
    if kind == "heartbeat":
        ud = hashlib.sha256(b"hb" + bytes([i]) + ch.bytes(4, "uniq")).digest()[:16]
        req = {"command": "signerHeartbeat", "udValue": ud.hex(), "version": 5}

        def chk(rep):
            if rep.get("errorcode") != 0 or not str(rep.get("message", "")).endswith(ud.hex()):
                return "expected a heartbeat over this client's value %s, got %r" % (ud.hex(), rep)
        return req, chk, kind
    if kind == "uiheartbeat":
        ud = hashlib.sha256(b"uihb" + bytes([i]) + ch.bytes(4, "uniq")).digest()
        req = {"command": "uiHeartbeat", "udValue": ud.hex(), "version": 5}

        def chk(rep):
            # the mode walk (exit, USB re-enumeration, UI heartbeat, exit, re-enumeration) runs while
            # the other clients wait; the message embeds this client's value
            if rep.get("errorcode") != 0 or ud.hex() not in str(rep.get("message", "")):
                return "expected a UI heartbeat over this client's value %s, got %r" % (ud.hex(), rep)
        return req, chk, kind
    path = c01.PATHS[ch.draw(6, "path")]
    return {"command": "getPubKey", "keyId": path, "version": 5}, \
        (lambda rep: None if rep.get("errorcode") == 0 else "got %r" % (rep,)), kind


def run_one(ch, cfg):
    # the cyclic garbage collector is one more scheduler: left to itself it runs finalizers at an
    # allocation of its own choosing, in whichever thread happens to allocate.  In simulation it is
    # switched off for the run and, one run in three, asked for at drawn device exchanges instead
    # (inside the serving thread, while the answer is awaited): a finalizer that talks to the device
    # does so there, repeatably, and its APDUs are tagged as nobody's request
    import gc
    gc.disable()
    try:
        return _run_one(ch, cfg)
    finally:
        gc.enable()


def _run_one(ch, cfg):
    import gc
    gc_mode = ch.draw(3, "gc.mode") == 1
    in_gc = []
    nclients = 2 + ch.draw(cfg["max_clients"] - 1, "nclients")
    # per run: a fast, an ordinary or a slow device (every answer stays below the 10 s exchange
    # time-out, whole requests may take minutes)
    lat = [[0.0, 0.0005, 0.01, 0.3], [0.0, 0.0005], [0.0, 0.3, 2.5, 6.0]][ch.draw(3, "device.speed")]
    # link faults while several clients are queued: the request that meets one gets the device-error
    # code (C11); everybody else still gets their own reply, and the repair belongs to the next request
    # (one fault per run: a second one could land in the repair's own onboarded check, which ends the
    # manager by design)
    tcp = ch.draw(5, "platform.tcp") == 1
    nfaults = 0 if tcp else [0, 0, 1][ch.draw(3, "link.faults")]
    targets = {}
    for _ in range(nfaults):
        # "fatal-status" / "fatal-answer": a status word outside the device's own range, or an answer
        # the manager cannot read, ends the manager by design
        # (reply without result code, shutdown by the helper thread) while other clients are queued:
        # whoever is still served gets their own reply, and the device sees whole requests only
        # "device-error": a status of the device's own range (a rejected block, a refused step): the
        # request that meets it fails with a result code, nothing else changes for anybody
        targets[4 + ch.draw(80, "fault.at")] = ch.pick(
            ["read_err_before", "read_err_after", "write_err", "timeout_before", "fatal-status",
             "fatal-answer", "device-error", "device-error"], "fault.kind")
    faulted = set()
    dev_errors = set()
    fatal = []

    def latency(apdu):
        if gc_mode and not in_gc and ch.draw(5, "gc.now") == 0:
            in_gc.append(1)
            try:
                w.link.stats.fault("gc.collect")
                gc.collect(1)
            finally:
                in_gc.pop()
        return lat[ch.draw(len(lat), "latency")]

    def fault_fn(idx, apdu):
        kind = targets.get(idx)
        if kind is not None:
            faulted.add(dev.tag())
        if kind == "fatal-status":
            fatal.append(idx)
            return ("sw", 0x6E00)
        if kind == "device-error":
            dev_errors.add(dev.tag())
            return ("sw", 0x6B8B)
        if kind == "fatal-answer":
            # an answer cut down to one byte: the manager cannot read it, answers without a result code
            # and goes down (by design) - with other clients queued
            fatal.append(idx)
            return ("alter", lambda b: b[:1])
        return kind
    dcfg = {"sig_from_request": True,
            "post_exit_signer": {"mode": 0x04, "delay": 0.3, "silence": "read_err"},
            "post_exit_uihb": {"mode": 0x03, "delay": 0.3, "silence": "read_err"}}
    if tcp:
        # the TCPSigner manager (manager_tcp.py: HSM2DongleTCP over the simulated TCP link, the real
        # ManagerRunner); no link fault here, the device is simply as slow as drawn
        from sim.procworld import ProcWorld
        w = ProcWorld(ch, platform="tcp", device_cfg=dict(dcfg, mode=0x03), step_cap=60000)
        w.link.latency_fn = latency
        # a signal reaches the manager process while clients are queued (one run in three): whatever
        # the process does about it (nothing, end, a handler of its own) happens in the main thread on
        # top of the request being served - which still owns the device for its whole block
        if ch.draw(3, "signal") == 1:
            import signal as _sg
            w.signal_at = (ch.draw(120, "signal.seam"),
                           ch.pick([_sg.SIGHUP, _sg.SIGWINCH, _sg.SIGUSR1, _sg.SIGCHLD], "signal.number"))
            # (not SIGINT: the operator's Ctrl-C is a request to stop; what the requests in flight
            # get then is not this property's subject)
    else:
        w = ServerWorld(ch, fault_fn=fault_fn if nfaults else None, device_cfg=dcfg, step_cap=60000,
                        latency=latency)
    k = w.kernel
    dev = w.device
    dev.tag = lambda: "finalizer" if in_gc else (
        k.current.last_line[0] if k.current is not None and k.current.last_line is not None else None)
    mtask = w.start_manager()
    if tcp:
        w.manager_task = mtask
    done = {}
    viol = []
    kinds = []
    plans = []
    for i in range(nclients):
        req, chk, kind = make_request(ch, i, uihb=not nfaults and not tcp)
        kinds.append(kind)
        start = ch.pick([0.0, 0.0, 0.001, 0.05, 1.0], "client.start")
        frag = ch.draw(4, "client.frag") == 1
        plans.append((i, req, chk, start, frag))

    def client(i, req, chk, start, frag):
        def body():
            k.block(lambda: w.serving() or w.manager_task.done, 600)
            if start:
                k.sleep(start)
            c = w.net.connect()
            if c is None:
                done[i] = ("refused", None)
                return
            payload = json.dumps(req).encode() + b"\n"
            if frag:
                cut = 1 + ch.draw(len(payload) - 1, "frag.cut")
                c.send(payload[:cut])
                k.sleep(ch.pick([0.001, 0.2], "frag.delay"))
                c.send(payload[cut:])
            else:
                c.send(payload)
            data = c.drain()
            done[i] = ("answered", data, c.conn.cid)
        return body
    for p in plans:
        k.spawn(client(*p), "client%d" % p[0])
    outcome = None
    try:
        outcome = k.run(until=lambda: len(done) == nclients, max_time=7200.0)
    except StepCap:
        outcome = "step-cap"
    except RuntimeError as e:
        if "SIM-UNSUPPORTED" in str(e):
            raise
        raise
    if w.manager_task.exc is not None and "SIM-UNSUPPORTED" in str(w.manager_task.exc):
        raise RuntimeError(str(w.manager_task.exc))
    # ---- every client answered with the reply to its own request
    cid_of = {}
    sigs = getattr(w, "signals", [])
    ended_by_signal = any(x[4] in ("terminated", "KeyboardInterrupt") for x in sigs)
    for i, req, chk, start, frag in plans:
        d = done.get(i)
        if fatal and (d is None or d[0] == "refused" or not d[1]):
            continue              # the manager is going down: not being served is legitimate
        if ended_by_signal and (d is None or d[0] == "refused" or not d[1]):
            continue              # the process was told to end (default action of the signal / Ctrl-C)
        if d is None:
            viol.append(("liveness/unanswered", "client %d (%s) got no reply; scheduler ended with %s"
                         % (i, kinds[i], outcome)))
            continue
        if d[0] == "refused":
            viol.append(("liveness/refused", "client %d refused (%s)" % (
                i, w.outcomes.get("mgr0") if tcp else w.manager_outcome)))
            continue
        data = d[1]
        cid_of[d[2]] = i
        try:
            rep = json.loads(data.decode())
            assert isinstance(rep, dict) and data.count(b"\n") == 1
            if fatal and d[2] in faulted:
                # the request that met the fatal status: no result code by design - and certainly
                # nothing that was computed for somebody else
                # (what a manager makes of an answer it cannot read is not judged; handing out the
                # reply another client of this run received is)
                others = [o[1] for j, o in done.items() if j != i and o[0] == "answered"]
                if set(rep) - {"errorcode"} and chk(rep) and data in others:
                    viol.append(("reply/not-own", "client %d (%s), whose request met the fatal status, "
                                 "received another client's reply %s" % (i, kinds[i], str(rep)[:160])))
                continue
        except Exception:
            viol.append(("reply/malformed", "client %d (%s) received %r" % (i, kinds[i], data[:200])))
            continue
        why = chk(rep)
        if why and d[2] in faulted and rep.get("errorcode") == -905:
            why = None            # this request met the injected link fault
        if why and d[2] in dev_errors and isinstance(rep.get("errorcode"), int) and rep["errorcode"] < 0:
            why = None            # this request met the injected device error: its own failure
        if why:
            viol.append(("reply/not-own", "client %d (%s): %s" % (i, kinds[i], why)))
    # ---- contiguity of the tagged device log
    seq = [t for (t, a) in dev.tagged if t is not None]
    closed = set()
    prev = None
    for t in seq:
        if t != prev:
            if t in closed:
                viol.append(("device/interleaved",
                             "APDUs of connection %s (client %s) resume after APDUs of another "
                             "request; tag sequence %s" % (t, cid_of.get(t), _compress(seq)[:40])))
                break
            if prev is not None:
                closed.add(prev)
            prev = t
    overlap = max((d for _, d in w.net.accept_order), default=0)
    leaked = w.finish()
    sched_sig = hashlib.sha1("/".join(k.sched_trace).encode()).hexdigest()[:12]
    st = (tuple(w.net.accept_order), sched_sig)
    return {"violations": viol, "digest": w.log.digest(), "state": st,
            "nontrivial": overlap >= 1,
            "probes": dict({"max_backlog_%d" % min(overlap, 8): 1, "clients": nclients,
                            "handler_threads": sum(1 for t in k.tasks if t.name.startswith("thread")
                                                   or t.name.startswith("Thread"))},
                           **{"signal.%s" % x[4]: 1 for x in sigs}),
            "faults": dict(dict(w.link.stats.faults), **{"signal." + x[4]: 1 for x in sigs}),
            "sim_s": w.clock.elapsed, "sched": sched_sig,
            "sample": {"clients": [{"i": i, "kind": kinds[i], "start": s, "fragmented": f}
                                   for i, _, _, s, f in plans],
                       "accept_order": w.net.accept_order, "device_tag_sequence": _compress(seq)[:30],
                       "scheduler_steps": k.steps, "outcome": outcome, "leaked_threads": leaked}}


def _compress(seq):
    out = []
    for t in seq:
        if out and out[-1][0] == t:
            out[-1][1] += 1
        else:
            out.append([t, 1])
    return out


def _threading_server():
    import comm.server as m
    return patch_function(m.TCPServer, "run", "self.server = socketserver.TCPServer(",
                          "self.server = socketserver.ThreadingTCPServer(")


def _lock_free_handoff():
    # the server class stays single-threaded, but the request handler defers the protocol call to
    # a helper thread so that the loop can accept the next connection meanwhile
    import comm.server as m
    orig = m._TCPServerRequestHandler.handle
    orig_finish = m._TCPServerRequestHandler.finish
    orig_shutdown_request = m.socketserver.TCPServer.shutdown_request

    def handle(self):
        line = self.rfile.readline()
        conn = self.connection
        srv = self.server
        addr = self.client_address[0]

        class _W:
            def write(s, b):
                conn.sendall(b)
                return len(b)

        class _R:
            def readline(s):
                return line

        def work():
            try:
                m._RequestHandler(srv.protocol, srv.logger).handle(addr, _R(), _W())
            finally:
                conn.close()
        m.threading.Thread(target=work).start()

    m._TCPServerRequestHandler.handle = handle
    m._TCPServerRequestHandler.finish = lambda self: None
    m.socketserver.TCPServer.shutdown_request = lambda self, request: None

    def undo():
        m._TCPServerRequestHandler.handle = orig
        m._TCPServerRequestHandler.finish = orig_finish
        m.socketserver.TCPServer.shutdown_request = orig_shutdown_request
    return undo


def _pool_with_give_up():
    # the protocol call runs on a one-shot pool thread; past 20 s the handler answers a device error
    # and moves on while the worker keeps talking to the device
    import comm.server as m
    from concurrent.futures import ThreadPoolExecutor, TimeoutError as _TO

    def deliver(protocol, request):
        ex = ThreadPoolExecutor(max_workers=1)
        try:
            return ex.submit(protocol.handle_request, request).result(timeout=20)
        except _TO:
            return protocol.device_error()
        finally:
            ex.shutdown(wait=False)
    m._verif_deliver = deliver
    return patch_function(m._RequestHandler, "handle",
                          "response = self.protocol.handle_request(request)",
                          "response = _verif_deliver(self.protocol, request)")


MUTANTS = {
    "threading-tcp-server": _threading_server,
    "pool-thread-with-give-up-timeout": _pool_with_give_up,
    "handler-hands-off-to-helper-thread": _lock_free_handoff,
}

if __name__ == "__main__":
    import checks.c12 as _me
    batch.main(_me)
