"""C01 - signing relays to the device exactly what the client asked to have signed.

Two-party protocol simulation: real JSON handler + protocol + APDU layer + real
ledgerblue HID framing against the policy-driven Signer model; the device-side
reassembly oracle lives in the model (incremental), the reply oracle here."""
import copy
import struct
import sys

from sim import boot
boot.boot()

from sim import batch                       # noqa: E402
from sim.world import World                 # noqa: E402
from sim.mutate import patch_function       # noqa: E402
from refs import btc                        # noqa: E402

PROPERTY = "C01"
LEVEL = "exploration"
RULE = ("one run = bring-up + 1..3 generated sign requests in one manager lifetime (v5 legacy/segwit/hash "
        "or v1 hash; a later authorized request may share receipt / proof / transaction with the previous "
        "one; one request in six meets a link fault at a drawn exchange, at most one per lifetime), each "
        "relayed to a Signer model whose every chunk request, termination class "
        "(exact/late/early per part) and DER answer shape is a seeded draw; non-trivial = the "
        "request reached the device; distinct = tuple (mode, kind, key path, #inputs, push "
        "encodings present, witness-script varint form, termination class per part, "
        "multi-chunk parts, DER shape)")
TIERS = {"quick": {"runs": 150000, "wall": 240}, "thorough": {"runs": 1500000, "wall": 3000}}
COMPONENTS = {
    "real": ["comm.server._RequestHandler", "comm.protocol", "comm.protocol_v1",
             "ledger.protocol", "ledger.protocol_v1", "ledger.hsm2dongle", "ledger.signature",
             "comm.bitcoin", "comm.bip32", "ledgerblue.comm.HIDDongleHIDAPI",
             "ledgerblue.ledgerWrapper"],
    "stub": ["hid (simulated USB link)", "Signer application (model from firmware source)",
             "bitcoin.core (stand-in, DESIGN 3.9)", "clock"],
}
ASSUMPTIONS = [
    "device model written from firmware/src/powhsm (auth*.c, hsm.c), not the firmware itself",
    "bitcoin.core is the declared stand-in; transactions use the legacy serialisation",
    "blanking reference: OP_0 per non-final operation + canonically re-encoded final operation",
]

PATHS = ["m/44'/0'/0'/0/0", "m/44'/1'/0'/0/0", "m/44'/137'/0'/0/0", "m/44'/137'/1'/0/0",
         "m/44'/1'/1'/0/0", "m/44'/1'/2'/0/0"]


def SIM_CFG(tier):
    if tier == "thorough":
        return {"max_inputs": 20, "max_outputs": 20, "max_nodes": 255, "big": True}
    return {"max_inputs": 6, "max_outputs": 6, "max_nodes": 40, "big": False}


def path_bytes(path):
    out = bytearray([5])
    for comp in path[2:].split("/"):
        hard = comp.endswith("'")
        v = int(comp.rstrip("'")) + (0x80000000 if hard else 0)
        out += struct.pack("<I", v)
    return bytes(out)


def gen_der(ch):
    """-> (der_bytes, shape, r_hex or None, s_hex or None)"""
    shape = ch.weighted([(6, "plain"), (2, "0x31"), (2, "trailing"), (2, "short"),
                         (2, "long"), (1, "bad-tag"), (1, "bad-rtag"), (1, "truncated")],
                        "der.shape")
    rlen = ch.pick([32, 33, 1, 31], "der.rlen") if shape not in ("short", "long") else \
        (1 if shape == "short" else 33)
    slen = ch.pick([32, 33, 1, 31], "der.slen") if shape not in ("short", "long") else \
        (1 if shape == "short" else 33)
    r = ch.bytes(rlen, "der.r")
    s = ch.bytes(slen, "der.s")
    body = b"\x02" + bytes([rlen]) + r + b"\x02" + bytes([slen]) + s
    der = bytes([0x31 if shape == "0x31" else 0x30, len(body)]) + body
    if shape == "trailing":
        der += ch.bytes(ch.pick([1, 2, 8], "der.trail"), "der.trailbytes")
    if shape == "bad-tag":
        der = b"\x32" + der[1:]
        return der, shape, None, None
    if shape == "bad-rtag":
        der = der[:2] + b"\x03" + der[3:]
        return der, shape, None, None
    if shape == "truncated":
        der = der[:len(der) - 1 - ch.draw(min(slen, 4), "der.cut")]
        return der, shape, None, None
    return der, shape, r.hex(), s.hex()


def gen_request(ch, cfg, v1):
    path = ch.pick(PATHS, "path")
    pb = path_bytes(path)
    if v1:
        kind = "hash"
    else:
        kind = ch.pick(["legacy", "segwit", "hash"], "kind")
    # the device signs authorised (tx + receipt) requests on the BTC / tBTC keys and plain hashes on
    # the other four; one request in eight asks for the wrong kind of signature for its key (the device
    # refuses at the path step)
    if ch.draw(8, "path.wrong-kind") != 1:
        i = PATHS.index(path)
        path = PATHS[2 + i % 4] if kind == "hash" else PATHS[i % 2]
        pb = path_bytes(path)
    info = {"kind": kind, "path": path}
    if kind == "hash":
        h = ch.bytes(32, "hash")
        exp = {"kind": "sign", "path": pb + h}
        if v1:
            req = {"command": "sign", "keyId": path, "message": h.hex(), "version": 1}
        else:
            req = {"command": "sign", "keyId": path, "message": {"hash": h.hex()},
                   "version": 5}
        return req, exp, info
    raw, txinfo = btc.gen_tx(ch, cfg["max_inputs"], cfg["max_outputs"])
    info.update(txinfo)
    nin = txinfo["nin"]
    idx = ch.pick([0, nin - 1, nin, 2 ** 31, 2 ** 32 - 1, ch.draw(2 ** 32, "idx.rnd")], "idx")
    blanked = btc.blank_tx(raw)
    msg = {"tx": raw.hex(), "input": idx, "sighashComputationMode": kind}
    extra = b""
    if kind == "segwit":
        wslen = ch.pick([1, 71, 0xfc, 0xfd, 300, 600] if not cfg["big"] else
                        [1, 71, 0xfc, 0xfd, 300, 600, 5000], "ws.len")
        ws = ch.bytes(wslen, "ws")
        ov = ch.pick([1, 2 ** 32, 2 ** 63, 2 ** 64 - 1, 1 + ch.draw(2 ** 64 - 1, "ov.rnd")], "ov")
        msg["witnessScript"] = ws.hex()
        msg["outpointValue"] = ov
        extra = btc.varint(len(ws)) + ws + struct.pack("<Q", ov)
        info["ws_varint"] = 1 if wslen < 0xfd else 3
    mode = 1 if kind == "segwit" else 0
    txstream = struct.pack("<I", 7 + len(blanked)) + bytes([mode]) + \
        struct.pack("<H", len(extra)) + blanked + extra
    rlen = ch.pick([1, 100, 255, 256, 700, 3000] if cfg["big"] else [1, 100, 255, 256, 700],
                   "receipt.len")
    receipt = ch.bytes(rlen, "receipt")
    nnodes = ch.pick([1, 2, 5, cfg["max_nodes"]], "proof.n")
    nodes = []
    if nnodes > 60 and not ch.chance(0.1, "proof.big"):
        nnodes = 3
    for _ in range(nnodes):
        nl = ch.pick([32, 1, 255, 100], "node.len") if nnodes <= 60 else \
            ch.pick([1, 255, 32], "node.len")
        nodes.append(ch.bytes(nl, "node"))
    merkle = bytes([len(nodes)]) + b"".join(bytes([len(n)]) + n for n in nodes)
    req = {"command": "sign", "keyId": path, "message": msg,
           "auth": {"receipt": receipt.hex(),
                    "receipt_merkle_proof": [n.hex() for n in nodes]},
           "version": 5}
    exp = {"kind": "sign", "path": pb + struct.pack("<I", idx), "tx": txstream,
           "receipt": receipt, "merkle": merkle}
    info["nodes"] = len(nodes)
    return req, exp, info


def run_one(ch, cfg):
    v1 = ch.draw(5, "mode.v1") == 1
    arm = {}

    def fault_fn(idx, apdu):
        if arm.get("at") == idx:
            arm["fired"] = arm["kind"]
            return arm["kind"]
        return None
    # per lifetime: a device that asks for whatever sizes it likes, or (one in sixteen) for 1..3 bytes at a
    # time throughout - a legal pattern that turns long parts into thousands of messages
    tiny = ch.draw(16, "device.tiny-chunks") == 1
    w = World(ch, v1=v1, fault_fn=fault_fn, device_cfg={"chunk_regime": "tiny"} if tiny else None)
    w.arm = arm
    viol = []
    w.bring_up()
    # history: one manager lifetime serves 1..3 signing requests; each is judged on its own
    nreq = [1, 1, 2, 3][ch.draw(4, "requests-in-lifetime")]
    out = None
    for _ in range(nreq):
        res = _one_request(w, ch, cfg, v1, viol)
        if out is None:
            out = res
    out["violations"] = viol
    out["digest"] = w.log.digest()
    out["sim_s"] = w.clock.elapsed
    out["faults"] = dict(w.link.stats.faults)
    out["probes"] = dict(w.device.probes)
    out["probes"]["requests_%d" % nreq] = 1
    return out


def _one_request(w, ch, cfg, v1, viol):
    req, exp, info = gen_request(ch, cfg, v1)
    # related requests within one lifetime (the inputs of one pegout are signed one after the other,
    # a client retries with a rebuilt proof): a later request may share its receipt, its proof or its
    # transaction with the previous authorized one - and must still be relayed on its own terms
    prev = getattr(w, "prev_auth", None)
    if prev is not None and "auth" in req and ch.draw(2, "related-to-previous") == 1:
        preq, pexp = prev
        share = ch.draw(4, "related.share")
        if share in (0, 3):
            req["auth"]["receipt"] = preq["auth"]["receipt"]
            exp["receipt"] = pexp["receipt"]
        if share in (1, 3):
            req["auth"]["receipt_merkle_proof"] = list(preq["auth"]["receipt_merkle_proof"])
            exp["merkle"] = pexp["merkle"]
        if share == 2:
            req["message"] = copy.deepcopy(preq["message"])
            exp["tx"] = pexp["tx"]
            exp["path"] = exp["path"][:-4] + pexp["path"][-4:]
    if "auth" in req:
        w.prev_auth = (copy.deepcopy(req), dict(exp))
    der, shape, r_hex, s_hex = gen_der(ch)
    exp["der"] = der
    dev = w.device
    dev.expect = exp
    dev.sign = None
    n_before = len(dev.apdus)
    # one request in six meets a link fault at one of its exchanges (at most one per lifetime): the
    # device is still never handed other bytes than the client's, success only if it reported it
    arm = w.arm
    arm.pop("fired", None)
    arm.pop("at", None)
    if ch.draw(6, "link-fault") == 1 and not arm.get("used"):
        arm["used"] = True
        arm["at"] = w.link.index + ch.draw(30, "link-fault.at")
        arm["kind"] = ["timeout_after", "timeout_before", "read_err_after", "read_err_before",
                       "write_err"][ch.draw(5, "link-fault.kind")]
    t0 = len(w.link.transport)
    rep, exc = w.request(req)
    fired = arm.get("fired")
    arm.pop("at", None)
    viol.extend(dev.violations)
    del dev.violations[:]
    st = dev.sign
    parts = {}
    complete = False
    reached = len(dev.apdus) > n_before
    if st is not None and st.get("k") == "sign":
        complete = st["done"]
        if st["auth"]:
            for name in ("tx", "receipt", "merkle"):
                se = st["parts"].get(name)
                full = se is not None and bytes(se.got) == exp[name]
                parts[name] = (se.term if se else "-", full,
                               (len(se.got) > se.requested) if se else False)
                complete = complete and full
            if st["order"] != ["tx", "receipt", "merkle"][:len(st["order"])]:
                viol.append(("relay/order", "parts consumed in order %s" % st["order"]))
        if exp["path"] != st["path"]:
            complete = False
    else:
        complete = False
    # nothing dropped or truncated: without a link fault, a device that kept asking (no early stop, no
    # error status) ends up holding every part - however many messages that takes
    refused = any(e[0] == "xchg" and len(e) >= 5 and e[-1] != "9000" for e in w.link.transport[t0:])
    early = any(v[0] == "early" for v in parts.values())
    if st is not None and st.get("k") == "sign" and st["auth"] and not complete and not fired \
            and not refused and not early and exp["path"] == st["path"]:
        viol.append(("relay/incomplete", "device holds %s; it never refused or stopped early, the link "
                     "never failed; reply %r" % (
                         {n_: (len(st["parts"][n_].got) if n_ in st["parts"] else None, len(exp[n_]))
                          for n_ in ("tx", "receipt", "merkle")}, rep)))
    if exc is not None:
        viol.append(("reply/exception", "%s: %s" % (type(exc).__name__, exc)))
    if not isinstance(rep, dict) or not isinstance(rep.get("errorcode"), int) \
            or isinstance(rep.get("errorcode"), bool):
        viol.append(("reply/malformed", "reply %r" % (rep,)))
    else:
        code = rep["errorcode"]
        should_succeed = complete and r_hex is not None
        if fired:
            errc = -2 if v1 else -905
            if code == 0 and not should_succeed:
                viol.append(("reply/false-success", "link fault %s, errorcode=0 although the device did "
                             "not consume every part and report success" % fired))
            elif code not in (0, errc):
                viol.append(("reply/code-after-link-fault", "link fault %s -> errorcode %d" % (fired, code)))
        elif should_succeed:
            if code != 0:
                viol.append(("reply/not-success", "device consumed everything and answered "
                             "SUCCESS (%s DER) but errorcode=%d" % (shape, code)))
            else:
                sig = rep.get("signature")
                if not isinstance(sig, dict) or sig.get("r") != r_hex or sig.get("s") != s_hex:
                    viol.append(("reply/rs", "signature %r, device returned r=%s s=%s"
                                 % (sig, r_hex, s_hex)))
        else:
            if code >= 0:
                viol.append(("reply/false-success", "errorcode=%d although %s" % (
                    code, "DER malformed (%s)" % shape if complete else
                    "device did not consume every part / did not report success")))
    state = ("v1" if v1 else "v5", info["kind"], info["path"], info.get("nin"),
             tuple(info.get("forms", ())), info.get("ws_varint"),
             tuple((k, v[0], v[2]) for k, v in sorted(parts.items())), shape)
    return {"violations": viol, "digest": w.log.digest(), "state": state,
            "nontrivial": reached, "faults": dict(w.link.stats.faults),
            "probes": dict(dev.probes), "sim_s": w.clock.elapsed,
            "sample": {"mode": "v1" if v1 else "v5", "request": _short(req),
                       "der": der.hex(), "terminations": {k: v[0] for k, v in parts.items()},
                       "reply": rep}}


def _short(o, n=96):
    if isinstance(o, dict):
        return {k: _short(v, n) for k, v in o.items()}
    if isinstance(o, list):
        return [_short(v, n) for v in o[:4]] + (["...%d more" % (len(o) - 4)] if len(o) > 4 else [])
    if isinstance(o, str) and len(o) > n:
        return o[:n] + "...(%d chars)" % len(o)
    return o


# --------------------------------------------------------------------------- mutants

def _m(owner_path, name, old, new):
    def apply():
        import importlib
        modname, _, clsname = owner_path.rpartition(".")
        mod = importlib.import_module(modname)
        owner = getattr(mod, clsname)
        return patch_function(owner, name, old, new)
    return apply


MUTANTS = {
    "path-encoding-remembered-across-requests": _m(
        "ledger.hsm2dongle.HSM2Dongle", "sign_authorized", "key_id_bytes = key_id.to_binary()",
        "key_id_bytes = self.__dict__.setdefault('_kib', key_id.to_binary())"),
    "input-index-big-endian": _m(
        "ledger.hsm2dongle.HSM2Dongle", "sign_authorized",
        'input_index.to_bytes(4, byteorder="little"', 'input_index.to_bytes(4, byteorder="big"'),
    "outpoint-big-endian": _m(
        "ledger.hsm2dongle.HSM2Dongle", "sign_authorized",
        "OUTPOINT_VALUE_LENGTH,\n byteorder='little', signed=False",
        "OUTPOINT_VALUE_LENGTH,\n byteorder='big', signed=False"),
    "payload-length-includes-extradata": _m(
        "ledger.hsm2dongle.HSM2Dongle", "sign_authorized",
        "EXTRADATALENGTH_LENGTH + \\\n len(btc_tx_bytes)",
        "EXTRADATALENGTH_LENGTH + len(ed_bytes) + len(btc_tx_bytes)"),
    "missing-witness-varint": _m(
        "ledger.hsm2dongle.HSM2Dongle", "sign_authorized",
        "ed_bytes = ws_length_bytes + ws_bytes + ov_bytes", "ed_bytes = ws_bytes + ov_bytes"),
    "merkle-node-length-dropped": _m(
        "ledger.hsm2dongle.HSM2Dongle", "sign_authorized",
        "merkle_proof_bytes + bytes([len(node_bytes)]) + node_bytes",
        "merkle_proof_bytes + node_bytes"),
    "chunk-never-shorter-than-8": _m(
        "ledger.hsm2dongle.HSM2Dongle", "_send_data_in_chunks",
        "to_send = data[offset:offset + bytes_requested]",
        "to_send = data[offset:offset + max(bytes_requested, 8)]"),
    "late-ask-resends-tail": _m(
        "ledger.hsm2dongle.HSM2Dongle", "_send_data_in_chunks",
        "to_send = data[offset:offset + bytes_requested]",
        "to_send = data[offset:offset + bytes_requested] or data[-1:]"),
    "success-on-early-termination": _m(
        "ledger.hsm2dongle.HSM2Dongle", "_send_data_in_chunks",
        "if expect_full_data and finished and total_bytes_sent < len(data):",
        "if False:"),
    "r-s-swapped": _m(
        "ledger.protocol.HSM2ProtocolLedger", "_sign",
        '{"r": signature.r, "s": signature.s}', '{"r": signature.s, "s": signature.r}'),
    "blanking-keeps-first-op": _m(
        "comm.bitcoin", "_clear_all_but_last_op_from_scriptsig",
        "new_ops = ([0] * (len(ops) - 1)) + [ops[-1]]",
        "new_ops = [ops[0]] + ([0] * (len(ops) - 2)) + [ops[-1]] if len(ops) > 1 else ops"),
    "unsigned-tx-not-used": _m(
        "ledger.protocol.HSM2ProtocolLedger", "_sign",
        "btc_tx=unsigned_btc_tx,", 'btc_tx=msg["tx"],'),
    "receipt-truncated-to-255": _m(
        "ledger.hsm2dongle.HSM2Dongle", "sign_authorized",
        "data=bytes.fromhex(rsk_tx_receipt),", "data=bytes.fromhex(rsk_tx_receipt)[:255],"),
    "v1-hash-lowercased-path": _m(
        "ledger.protocol_v1.HSM1ProtocolLedger", "_sign",
        'hash=request["message"]', 'hash=request["message"][:62] + "00"'),
    "der-0x31-rejected": _m(
        "ledger.signature.HSM2DongleSignature", "__init__",
        "signature_bytes[0] not in [0x30, 0x31]", "signature_bytes[0] != 0x30"),
}

if __name__ == "__main__":
    import checks.c01 as _me
    batch.main(_me)
