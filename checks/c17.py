"""C17 - signer authorizations contain what the device will check.

Tool pipeline + 2-party simulation: `signapp message / key / manual / eth` build
and extend an authorization file on the simulated file system (the Ethereum-app
model signs for `eth`), `adm_ledger authorize_signer` sends it to the UI model,
which recomputes the digest from the firmware's construction
(signer_authorization.c) and verifies every signature against its authorisers'
keys with the real threshold rule."""
import json

from sim import boot
boot.boot()

import ecdsa                                            # noqa: E402

from sim import batch                                   # noqa: E402
from sim import simfs                                   # noqa: E402
from sim.choices import EventLog                        # noqa: E402
from sim.clock import Clock                             # noqa: E402
from sim.adminworld import AdminWorld                   # noqa: E402
from sim.mutate import patch_function                   # noqa: E402
from sim.devices import ledger as L                     # noqa: E402
from sim.devices.ledger_admin import (AdminLedgerDevice, Key, scalar, keccak256, MODE_ETH,  # noqa: E402
                                      MODE_DASHBOARD)
from refs import hexfile                                # noqa: E402

import signapp                                          # noqa: E402
import adm_ledger                                       # noqa: E402

signapp.isfile = simfs._isfile

PROPERTY = "C17"
LEVEL = "exploration"
RULE = ("one run = one authorisation life cycle: an Intel-HEX signer image, an iteration (boundary and "
        "malformed values), `signapp message`, then 0..6 signing steps drawn from {key (authoriser / "
        "stranger / same authoriser again), eth (Ethereum-app model), manual (valid / malformed DER)} - key "
        "and eth steps with or without the -a / -i options repeated (same app, another app, another "
        "iteration) -, a "
        "save-load-save cycle, one authorisation object taken through 0..3 add_signature operations (valid "
        "/ malformed) against a list model, then `adm_ledger authorize_signer` against a UI model with n "
        "authorisers "
        "(threshold n/2+1) and a current iteration; non-trivial = the device received a SIGVER; distinct "
        "= (iteration class, signing-step kinds, #authorisers, device outcome)")
TIERS = {"quick": {"runs": 6000, "wall": 240}, "thorough": {"runs": 120000, "wall": 3000}}
MUTANT_RUNS = 600
MUTANT_WALL = 150
COMPONENTS = {
    "real": ["signapp.main (message, key, manual, eth)", "admin.signer_authorization",
             "admin.ledger_utils", "admin.dongle_eth", "adm_ledger.main authorize_signer",
             "admin.authorize_signer", "admin.unlock", "ledger.hsm2dongle.authorize_signer",
             "ledgerblue HID transport and hexParser"],
    "stub": ["UI model (signer_authorization.c: digest construction, authorisers, threshold, iteration)",
             "Ethereum app model", "file system", "entropy", "operator"],
}
ASSUMPTIONS = [
    "the statement's first sentence (text and digest for every hash and iteration) is a pure function: "
    "covered only in that the device model, built from the firmware's construction, authorises what the "
    "tools signed (boundary iterations always included)",
]

ITERATIONS = [("2", 2), ("10", 10), ("65535", 65535), ("9", 9), ("0x10", 16), ("1", 1), ("0", 0),
              ("-1", None), ("65536", None), ("0x10000", None), ("abc", None), ("", None)]
ETH_PATH = "m/44'/60'/0'/0/0"


def ref_digest(h, it):
    msg = ("RSK_powHSM_signer_%s_iteration_%d" % (h.hex(), it)).encode("ascii")
    return keccak256(b"\x19Ethereum Signed Message:\n" + str(len(msg)).encode() + msg)


def eth_path_bytes(path):
    comps = path[2:].split("/")
    out = bytearray([len(comps)])
    for c in comps:
        v = int(c.rstrip("'")) + (0x80000000 if c.endswith("'") else 0)
        out += v.to_bytes(4, "big")
    return bytes(out)


def run_one(ch, cfg):
    nauth = ch.pick([3, 1, 2, 5], "authorisers")
    auth_keys = [Key(scalar(b"auth%d" % i + ch.bytes(4, "auth.seed"))) for i in range(nauth)]
    stranger = Key(scalar(b"stranger" + ch.bytes(4, "stranger.seed")))
    eth_key = auth_keys[0] if ch.draw(2, "eth.is-authoriser") == 0 else stranger
    cur_iter = ch.pick([1, 0, 9, 65534], "device.iteration")
    log, clock = EventLog(), Clock()
    dev = AdminLedgerDevice(ch, clock, log, seed=ch.bytes(4, "devseed"), cfg={
        "mode": L.MODE_BOOTLOADER, "onboarded": True, "pin": b"abcd1234", "endorsed": True,
        "signer_iteration": cur_iter, "authorizers": [k.pub65 for k in auth_keys],
        "eth_keys": {eth_path_bytes(ETH_PATH): eth_key},
        "post_exit_ui": {"mode": L.MODE_SIGNER, "delay": 0.5, "silence": "read_err"},
        "post_exit_ui_nosig": {"mode": MODE_DASHBOARD, "delay": 0.5, "silence": "read_err"}})
    w = AdminWorld(ch, dev)
    viol = []
    if ch.draw(8, "foreign-file") == 1:
        # an authorization file that did not come from `signapp message` (hand-written, another tool)
        # with a malformed signer hash: every command that loads it refuses it, nothing reaches the
        # device and the file stays as it is
        h = ch.bytes(32, "foreign.hash").hex()
        bad = ch.pick(["0x" + h, "0X" + h, h[:-1], h + "0", h + "00", "zz" * 32, "", h[:-2] + "  ",
                       " " + h[1:], 5, None, [h]], "foreign.bad-hash")
        it = ch.pick([1, 0, 65535], "foreign.iteration")
        if ch.draw(2, "foreign.which-field") == 1:
            # the hash is fine, the iteration is not a 16-bit unsigned number (JSON lets booleans,
            # floats, null, containers and out-of-range numbers through)
            bad = h
            it = ch.pick([True, False, -1, 65536, 1.5, 2.0, None, [1], {"n": 1}, "abc", "", "-1", "65536",
                          "0x10000", 2 ** 40], "foreign.bad-iteration")
        AUTHF = "/simfs/auth.json"
        raw = json.dumps({"version": 1, "signer": {"hash": bad, "iteration": it},
                          "signatures": []}).encode()
        w.fs.put(AUTHF, raw)
        k0 = Key(scalar(b"foreign" + ch.bytes(4, "foreign.key")))
        st1, out1 = w.run_tool(signapp.main, ["signapp.py", "key", "-o", AUTHF, "-k", k0.priv.hex()])
        if st1 == 0 or w.fs.files.get(AUTHF) != raw:
            viol.append(("tools/malformed-%s-accepted" % ("hash" if bad != h else "iteration"),
                         "signapp key on a file with signer hash %r, iteration %r: exit %s, file %s" % (
                             bad, it, st1, "changed" if w.fs.files.get(AUTHF) != raw else "unchanged")))
        w.fs.put(AUTHF, raw)
        n0 = len(dev.sigaut_log)
        st2, out2 = w.run_tool(adm_ledger.main, ["adm_ledger.py", "authorize_signer", "-p", "abcd1234",
                                                 "-z", AUTHF])
        w.entropy_on = False
        if st2 == 0 or len(dev.sigaut_log) > n0:
            viol.append(("tools/malformed-%s-accepted" % ("hash" if bad != h else "iteration"),
                         "authorize_signer with signer hash %r, iteration %r: exit %s, %d messages sent to "
                         "the device" % (bad, it, st2, len(dev.sigaut_log) - n0)))
        return _res(viol, w, ("foreign-file", str(type(bad).__name__), len(str(bad))), True,
                    {"foreign_file": 1}, {"hash": repr(bad)[:80], "signapp_exit": st1,
                                          "authorize_exit": st2})
    areas = hexfile.gen_areas(ch, max_areas=3)
    w.fs.put("/simfs/signer.hex", hexfile.write(ch, areas))
    app_hash = hexfile.reference_hash(areas)
    it_str, it_val = ch.weighted([(4 if v is not None else 1, (t, v)) for t, v in ITERATIONS],
                                 "iteration")
    AUTH = "/simfs/auth.json"
    st, out = w.run_tool(signapp.main, ["signapp.py", "message", "-a", "/simfs/signer.hex",
                                        "-i", it_str, "-o", AUTH])
    steps = []
    if it_val is None:
        if st == 0 or AUTH in w.fs.files:
            viol.append(("tools/malformed-iteration-accepted", "iteration %r: exit %s" % (it_str, st)))
        w.entropy_on = False
        return _res(viol, w, ("bad-iteration", it_str), False, {"bad_iteration": 1},
                    {"iteration": it_str, "exit": st})
    if st != 0:
        viol.append(("tools/message-failed", "iteration %r: %s" % (it_str, out[-200:])))
        w.entropy_on = False
        return _res(viol, w, ("message-failed",), False, {}, {})
    doc = A_load(w, AUTH)
    if doc != {"version": 1, "signer": {"hash": app_hash.hex(), "iteration": it_val},
               "signatures": []}:
        viol.append(("file/initial-content", "signapp message wrote %r" % (doc,)))
    digest = ref_digest(app_hash, it_val)
    expected_sigs = []          # (sig_hex, signer index or None)
    nsteps = ch.draw(7, "signing-steps")
    other_areas = hexfile.gen_areas(ch, max_areas=2)
    w.fs.put("/simfs/other.hex", hexfile.write(ch, other_areas))
    for si in range(nsteps):
        kind = ch.weighted([(4, "key-authoriser"), (1, "key-stranger"), (1, "key-repeat"),
                            (2, "eth"), (1, "manual-valid"), (1, "manual-malformed"),
                            (1, "key-malformed")], "step")
        before = A_load(w, AUTH)
        # a signatory may repeat the whole command line of `signapp message` (-a / -i): the file that
        # is being added to says which signer version is authorised, and that is what gets signed
        appargs = [[], ["-a", "/simfs/signer.hex", "-i", it_str], ["-a", "/simfs/other.hex", "-i", it_str],
                   ["-a", "/simfs/signer.hex", "-i", str((it_val + 1) % 65536)]][
            ch.weighted([(5, 0), (1, 1), (1, 2), (1, 3)], "step.app-args")]
        if kind in ("key-authoriser", "key-stranger", "key-repeat"):
            if kind == "key-authoriser":
                idx = ch.draw(nauth, "which-authoriser")
                k = auth_keys[idx]
            elif kind == "key-repeat":
                idx = 0
                k = auth_keys[0]
            else:
                idx, k = None, stranger
            keyarg = k.priv.hex() if ch.draw(2, "key-uppercase") == 0 else k.priv.hex().upper()
            st, out = w.run_tool(signapp.main, ["signapp.py", "key", "-o", AUTH, "-k", keyarg] + appargs)
            after = A_load(w, AUTH)
            if st != 0 or after is None or len(after["signatures"]) != len(before["signatures"]) + 1:
                viol.append(("tools/key-signing-failed", "exit %s: %s" % (st, out[-200:])))
                break
            sig = after["signatures"][-1]
            if not verifies(k.pub65, sig, digest):
                viol.append(("signature/does-not-verify", "signapp key produced %s which does not "
                             "verify under the signing key for the reference digest" % sig))
            expected_sigs.append((sig, idx))
        elif kind == "eth":
            dev.mode = MODE_ETH
            st, out = w.run_tool(signapp.main, ["signapp.py", "eth", "-o", AUTH, "-p", ETH_PATH] + appargs)
            dev.mode = L.MODE_BOOTLOADER
            after = A_load(w, AUTH)
            if st != 0 or after is None or len(after["signatures"]) != len(before["signatures"]) + 1:
                viol.append(("tools/eth-signing-failed", "exit %s: %s" % (st, out[-300:])))
                break
            sig = after["signatures"][-1]
            if not verifies(eth_key.pub65, sig, digest):
                viol.append(("signature/does-not-verify", "signapp eth produced %s" % sig))
            expected_sigs.append((sig, 0 if eth_key is auth_keys[0] else None))
        elif kind == "manual-valid":
            idx = ch.draw(nauth, "which-authoriser")
            sig = auth_keys[idx].sign_digest(digest).hex()
            st, out = w.run_tool(signapp.main, ["signapp.py", "manual", "-o", AUTH, "-g", sig])
            after = A_load(w, AUTH)
            if st != 0 or after["signatures"] != before["signatures"] + [sig]:
                viol.append(("tools/manual-failed", "exit %s" % st))
                break
            expected_sigs.append((sig, idx))
        else:
            if kind == "manual-malformed":
                bad = ch.pick(["zz", "3006020101", "30060201010201", "", "00" * 70,
                               "3006020101020102ff"], "malformed-der")
                argv = ["signapp.py", "manual", "-o", AUTH, "-g", bad]
            else:
                bad = ch.pick(["zz" * 32, "11" * 31, "11" * 33, ""], "malformed-key")
                argv = ["signapp.py", "key", "-o", AUTH, "-k", bad]
            raw_before = w.fs.files.get(AUTH)
            st, out = w.run_tool(signapp.main, argv)
            if st == 0 or w.fs.files.get(AUTH) != raw_before:
                viol.append(("tools/malformed-%s-accepted" % ("signature" if "manual" in kind
                                                               else "key"),
                             "%r: exit %s" % (bad, st)))
        steps.append(kind)
    # ---- save -> load -> save is a fixed point
    from admin.signer_authorization import SignerAuthorization
    w.activate()
    try:
        sa = SignerAuthorization.from_jsonfile(AUTH)
        sa.save_to_jsonfile("/simfs/auth2.json")
        if A_load(w, "/simfs/auth2.json") != A_load(w, AUTH):
            viol.append(("file/roundtrip", "save/load/save changed the authorization"))
    except Exception as e:
        viol.append(("file/roundtrip", "authorization written by the tools does not load: %s" % e))
    # ---- one authorization object used for several operations (what a signing service built on the
    # library does): a refused signature leaves no trace, an accepted one is appended, and what is
    # saved afterwards is what the object was told
    try:
        sa = SignerAuthorization.from_jsonfile(AUTH)
        model = list(A_load(w, AUTH)["signatures"])
        ops = []
        for j in range(ch.draw(4, "object-ops")):
            if ch.draw(2, "object-op.malformed") == 1:
                bad = ch.pick(["zz", "3006020101", "30060201010201", "", "00" * 70, "3006020101020102ff",
                               None, 5], "object-op.bad")
                ops.append("bad")
                try:
                    sa.add_signature(bad)
                    viol.append(("object/malformed-signature-accepted", "add_signature(%r) did not raise" % (bad,)))
                except Exception:
                    pass
            else:
                good = auth_keys[ch.draw(nauth, "object-op.key")].sign_digest(digest).hex()
                ops.append("good")
                try:
                    sa.add_signature(good)
                    model.append(good)
                except Exception as e:
                    viol.append(("object/valid-signature-refused",
                                 "after operations %s add_signature(valid) raised %s" % (ops[:-1], e)))
                    break
            if list(sa.signatures) != model:
                viol.append(("object/state", "after operations %s the object holds %s, expected %s" % (
                    ops, [x if not isinstance(x, str) else x[:12] for x in sa.signatures],
                    [x[:12] for x in model])))
                break
        if ops and not any(v[0].startswith("object/") for v in viol):
            sa.save_to_jsonfile("/simfs/auth3.json")
            doc3 = A_load(w, "/simfs/auth3.json")
            if doc3 is None or doc3.get("signatures") != model:
                viol.append(("object/saved", "after operations %s the saved file holds %r" % (
                    ops, doc3 and [x[:12] for x in doc3.get("signatures", [])])))
            else:
                SignerAuthorization.from_jsonfile("/simfs/auth3.json")
    except Exception as e:
        viol.append(("object/exception", "%s: %s" % (type(e).__name__, e)))
    # ---- authorize on the device
    n0 = len(dev.sigaut_log)
    # one run in six: a link / device fault at a drawn exchange of the authorize command - whatever
    # happens, the tool never reports success unless the device ended up authorised
    afault = {}
    if ch.draw(6, "authorize.fault") == 1:
        at = w.link.index + ch.draw(24, "authorize.fault.at")
        kindf = ch.pick(["read_err_after", "read_err_before", "write_err", "timeout_after",
                         ("sw", 0x6E00), ("sw", 0x6A80), ("sw", 0x6985)], "authorize.fault.kind")

        def ffn(i, apdu):
            if i == at:
                afault["fired"] = kindf
                return kindf
            return None
        w.link.fault_fn = ffn
    st, out = w.run_tool(adm_ledger.main, ["adm_ledger.py", "authorize_signer", "-p", "abcd1234",
                                           "-z", AUTH])
    w.link.fault_fn = None
    w.entropy_on = False
    logx = dev.sigaut_log[n0:]
    final = A_load(w, AUTH)
    sigs = final["signatures"] if final else []
    # reference outcome from the firmware rule
    threshold = nauth // 2 + 1
    verified = set()
    stop_at = None
    if it_val > cur_iter:
        for i, (sg, idx) in enumerate(expected_sigs):
            if idx is not None:
                verified.add(idx)
            if len(verified) >= threshold:
                stop_at = i
                break
    should = stop_at is not None
    desc = "iteration %s (device at %d), %d authorisers, steps %s -> exit %s, device log %s" % (
        it_val, cur_iter, nauth, steps, st, [(op, d.hex()[:20]) for op, d in logx][:6])
    if afault.get("fired"):
        authorised = dev.signer_hash == app_hash and dev.signer_iteration == it_val
        # (an answer lost after the device acted leaves it authorised without the tool knowing: only
        # the false success is forbidden)
        if st == 0 and not authorised:
            viol.append(("tool/false-success", desc + " fault %s: exit 0 although the device is not "
                         "authorised" % (afault["fired"],)))
        return _res(viol, w, ("faulted-authorize", str(afault["fired"]), authorised), len(logx) > 0,
                    {"authorize_fault": 1, "authorised": int(authorised)},
                    {"iteration": it_str, "fault": str(afault["fired"]), "authorize_exit": st,
                     "authorised": authorised})
    if logx:
        want0 = (0x01, app_hash + it_val.to_bytes(2, "big"))
        if logx[0] != want0:
            viol.append(("relay/sigver", desc + " expected SIGVER %s" % want0[1].hex()))
        sent = [d.hex() for op, d in logx[1:] if op == 0x02]
        want_sent = [s for s, _ in expected_sigs][:(stop_at + 1) if should else len(expected_sigs)]
        if it_val <= cur_iter:
            want_sent = []
        if sent != want_sent:
            viol.append(("relay/signatures", desc + " sent %d signatures %s, expected %d in file order"
                         % (len(sent), [s[:12] for s in sent], len(want_sent))))
    elif sigs is not None:
        viol.append(("relay/nothing-sent", desc))
    authorised = dev.signer_hash == app_hash and dev.signer_iteration == it_val
    if authorised != should:
        viol.append(("device/outcome", desc + " device authorised=%s, firmware rule says %s"
                     % (authorised, should)))
    if (st == 0) != authorised:
        viol.append(("tool/exit-status", desc + " device authorised=%s" % authorised))
    state = ("ok-iteration", it_str, tuple(sorted(set(steps))), nauth, authorised)
    return _res(viol, w, state, len(logx) > 0,
                {"authorised": int(authorised), "steps": len(steps),
                 "iteration_not_newer": int(it_val <= cur_iter)},
                {"iteration": it_str, "device_iteration": cur_iter, "authorisers": nauth,
                 "steps": steps, "authorize_exit": st, "authorised": authorised,
                 "signatures_in_file": len(sigs)})


def verifies(pub65, sig_hex, digest):
    try:
        vk = ecdsa.VerifyingKey.from_string(pub65, curve=ecdsa.SECP256k1)
        return vk.verify_digest(bytes.fromhex(sig_hex), digest, sigdecode=ecdsa.util.sigdecode_der)
    except Exception:
        return False


def A_load(w, path):
    data = w.fs.files.get(path)
    if data is None:
        return None
    try:
        return json.loads(data.decode())
    except Exception:
        return None


def _res(viol, w, state, nontrivial, probes, sample):
    return {"violations": viol, "digest": w.log.digest(), "state": state, "nontrivial": nontrivial,
            "faults": dict(w.link.stats.faults), "probes": probes, "sim_s": w.clock.elapsed, "sample": sample}


def _m(owner_path, name, old, new, count=1):
    def apply():
        import importlib
        modname, _, clsname = owner_path.rpartition(".")
        try:
            owner = importlib.import_module(owner_path)
        except ImportError:
            owner = getattr(importlib.import_module(modname), clsname)
        return patch_function(owner, name, old, new, count)
    return apply


SV = "admin.signer_authorization.SignerVersion"
MUTANTS = {
    "iteration-little-endian": _m("ledger.hsm2dongle.HSM2Dongle", "authorize_signer",
                                  "byteorder='big', signed=False))", "byteorder='little', signed=False))"),
    "signatures-reversed": _m("ledger.hsm2dongle.HSM2Dongle", "authorize_signer",
                              "for signature in signer_authorization.signatures:",
                              "for signature in reversed(signer_authorization.signatures):"),
    "does-not-stop-at-success": _m("ledger.hsm2dongle.HSM2Dongle", "authorize_signer",
                                   "if result == self.OP.SIGNER_AUTH.OP_SIGN_RES_SUCCESS:\n return True",
                                   "if False:\n return True"),
    "not-enough-signatures-is-success": _m(
        "ledger.hsm2dongle.HSM2Dongle", "authorize_signer",
        "if result != self.OP.SIGNER_AUTH.OP_SIGN_RES_SUCCESS:", "if False:"),
    "message-uppercase-hash": _m(SV, "__init__", "self._hash = hash.lower()",
                                 "self._hash = hash.upper()"),
    "message-iteration-hex": _m(SV, "msg", "{str(self._iteration)}", "{hex(self._iteration)}"),
    "eth-prefix-length-of-bytes-plus-one": _m("admin.ledger_utils", "encode_eth_message",
                                              "{str(len(msg))}", "{str(len(msg) + 1)}"),
    "iteration-65536-accepted": _m(SV, "__init__", "iteration >= (2**16)", "iteration > (2**16)"),
    "negative-iteration-accepted": _m(SV, "__init__", "iteration < 0 or", ""),
    "malformed-der-accepted": _m("admin.signer_authorization.SignerAuthorization",
                                 "_assert_signature_valid", "raise ValueError(", "return; (lambda *a: a)("),
    "key-signs-message-not-digest": _m(
        "signapp", "main", "signature = sk.sign_digest(signer_version.get_authorization_digest(),",
        "import hashlib; signature = sk.sign_digest(hashlib.sha256(signer_version.get_authorization_msg())"
        ".digest(),"),
    "manual-overwrites-signatures": _m("admin.signer_authorization.SignerAuthorization", "add_signature",
                                       "self._signatures.append(signature)",
                                       "self._signatures = [signature]"),
}

if __name__ == "__main__":
    import checks.c17 as _me
    batch.main(_me)
