"""C18 - admin commands touch seed and PIN only under their preconditions.

One run = one invocation of adm_ledger / adm_sgx {onboard, unlock, changepin,
pubkeys} as a tool process (real argv parsing, real command code, real APDU
layer and transport) against one device state and one scripted operator."""
import json

from sim import boot
boot.boot()

from sim import batch                                   # noqa: E402
from sim.choices import EventLog                        # noqa: E402
from sim.clock import Clock                             # noqa: E402
from sim.adminworld import AdminWorld                   # noqa: E402
from sim.mutate import patch_function                   # noqa: E402
from sim.devices import ledger as L                     # noqa: E402
from sim.devices.ledger import pin_policy_ok            # noqa: E402
from sim.devices.ledger_admin import (AdminLedgerDevice, MODE_DASHBOARD, ORDERED_PATHS,  # noqa: E402
                                      path_binary)
from sim.devices.sgx_admin import SgxAdminDevice        # noqa: E402
from sim.hidlink import sever as hid_sever              # noqa: E402
from sim.tcplink import sever as tcp_sever              # noqa: E402

import adm_ledger                                       # noqa: E402
import adm_sgx                                          # noqa: E402

PROPERTY = "C18"
LEVEL = "fault_enumeration"
RULE = ("one run = (platform {Ledger, SGX}, command {onboard, unlock, changepin, pubkeys}, device state "
        "{mode bootloader / signer / ui-heartbeat / foreign app, onboarded y/n, echo ok/altered}, operator "
        "script {PIN valid / too short / digits only / non-alphanumeric / none / empty string, on argv or typed after "
        "0..2 invalid attempts (incl. letters / digits outside ASCII, the PIN with a stray blank / tab / CR), --anypin, answers yes / no / "
        "other-then-yes / other-then-no / 3..5 non-answers then no or EOF, --nounlock, "
        "--noexec}); enumerated: the full product of the enum dimensions; seeded: PIN strings and "
        "entropy, a failing onboarded or mode query, one link fault addressed by instruction (answer lost, "
        "exchange failing, or answer arriving late and staying queued on the handle), a blank device "
        "after the re-plug, and the device replaced by another one (onboarded / unlocked / blank) while "
        "the tool waits at its first or second prompt; non-trivial = at least one APDU reached the device; distinct = the scenario tuple")
MUTANT_WALL = 150
TIERS = {"quick": {"runs": 40000, "wall": 240}, "thorough": {"runs": 400000, "wall": 3000}}
EXHAUSTIVE = {"quick": True, "thorough": True}
COMPONENTS = {
    "real": ["adm_ledger.main / adm_sgx.main (argument parsing, dispatch, exit status)",
             "admin.onboard", "admin.unlock", "admin.changepin", "admin.pubkeys", "admin.misc",
             "admin.dongle_admin", "admin.certificate_v1 (save)", "ledger.pin.BasePin",
             "ledger.hsm2dongle", "sgx.hsm2dongle", "ledgerblue HID / TCP transports"],
    "stub": ["device models (UI bootloader + onboarding + BOLOS endorsement, Signer, SGX enclave)",
             "operator (argv, stdin, getpass)", "entropy (os.urandom)", "file system", "clock", "link"],
}
ASSUMPTIONS = [
    "release firmware: the device itself refuses non-compliant PINs at onboarding / change",
    "'carried out' is demanded only when the operator supplies a policy-compliant PIN",
]

COMMANDS = ["onboard", "unlock", "changepin", "pubkeys"]
MODES = ["bootloader", "signer", "ui-heartbeat", "foreign"]
PINKINDS = ["valid", "short", "digits", "nonalnum", "none", "empty"]
ANSWERS = [["yes"], ["no"], ["maybe", "yes"], ["Y", "no"], ["YES"],
           # an operator who keeps answering something else: no number of non-answers is a yes
           ["maybe", "", "y", "no"], ["a", "b", "c"], ["ok", "sure", "fine", "go", "yes please", "n"]]
DIMS = [[0, 1], list(range(4)), list(range(4)), [0, 1], [0, 1], list(range(6)), [0, 1], [0, 1, 2],
        list(range(len(ANSWERS))), [0, 1], [0, 1]]


def make_pin(ch, kind):
    if kind == "valid":
        return ch.pick(["abcd1234", "Zz9Zz9Zz", "1234567a"], "pin.valid")
    if kind == "short":
        return ch.pick(["abc123", "a", "abcd123"], "pin.short")
    if kind == "digits":
        return "12345678"
    if kind == "empty":
        return ""              # -p "$PIN" with the variable unset: given, and not a PIN
    if kind == "nonalnum":
        # punctuation, and letters / digits outside ASCII (what str.isalnum() or a byte-wise
        # Latin-1 reading would let through); 8 characters or 8 UTF-8 bytes
        return ch.pick(["abcd-123", "abcd 123", "abc!1234", "abc123\u00b5", "123456\u00b5",
                        "abcd123\u00e9", "abcdefg\u00df", "1234567\u00aa", "\u00e1bcd1234",
                        "abcd12\u0663\u0664", "\uff11\uff12345678", "abc12\u0434",
                        "ab\u00c2\u00b512", "1234\u00c3\u00a9"], "pin.nonalnum")
    return None


def run_one(ch, cfg):
    platform = ["ledger", "sgx"][ch.draw(2, "platform")]
    command = COMMANDS[ch.draw(4, "command")]
    mode = MODES[ch.draw(4, "mode")]
    onboarded = ch.draw(2, "not-onboarded") == 0
    echo_ok = ch.draw(2, "echo-bad") == 0
    pinkind = PINKINDS[ch.draw(6, "pin-kind")]
    via_prompt = ch.draw(2, "pin-via-prompt") == 1
    bad_attempts = ch.draw(3, "invalid-attempts-first")
    answers = ANSWERS[ch.draw(len(ANSWERS), "answers")]
    any_pin = ch.draw(2, "anypin") == 1
    flag2 = ch.draw(2, "nounlock/noexec") == 1
    # device fault (seeded runs only, after the enumerated dimensions): the onboarded query itself
    # fails with an error status; nothing can then be concluded about the device, so nothing that
    # presupposes "not onboarded" / "onboarded" may be sent (carrying out is not demanded either)
    onb_err = None
    if ch.draw(8, "onboarded-query-fails") == 1:
        onb_err = ch.pick([0x6E00, 0x6F01, 0x6985, 0x6A99, 0x6D00], "onboarded-query.status")
    # ... or the mode query does (same conclusion: nothing that presupposes bootloader mode)
    mode_err = None
    if ch.draw(8, "mode-query-fails") == 1 and not onb_err:
        mode_err = ch.pick([0x6E00, 0x6F01, 0x6D00, 0x6A99], "mode-query.status")
    # link fault (seeded runs, Ledger): one run in four starts from a healthy scenario of its command
    # (so that the exchanges worth faulting exist) and loses one answer / fails one exchange
    lf = ch.draw(4, "link-fault") == 1
    link_fault_run = platform == "ledger" and not onb_err and not mode_err and lf
    if link_fault_run:
        mode, echo_ok, onboarded = "bootloader", True, command != "onboard"
        pinkind, answers, any_pin, flag2, bad_attempts = "valid", ["yes"], False, False, 0
    # seeded only: what the operator plugs back in during the onboarding ceremony is blank (another
    # dongle, or the wipe did not survive the power cycle) - the unlock that follows must notice
    comes_back_blank = ch.draw(6, "replug-comes-back-blank") == 1
    # seeded only: while the tool waits for the operator at a prompt, the device it examined is
    # unplugged and another one plugged in (SGX: the service is restarted on another state)
    # seeded only: the PIN typed at the prompt first comes with a stray blank / tab / CR around it (then,
    # when the tool asks again, without)
    ws_kind = ch.draw(6, "typed.whitespace")
    swap = ch.draw(6, "device-swapped-at-prompt") == 1 and not link_fault_run and not onb_err
    if swap and ch.draw(4, "swap.any-scenario") != 0:
        # mostly from a healthy scenario of the command, so that the tool gets as far as its prompts
        mode, echo_ok, onboarded = "bootloader", True, command != "onboard"
        pinkind, answers, bad_attempts = "valid", ["yes"], 0
    devpin = b"Dev1cePin"[:8]
    seed = ch.bytes(6, "devseed")
    log, clock = EventLog(), Clock()
    if platform == "sgx" and mode in ("ui-heartbeat", "foreign"):
        mode = "signer"
    if platform == "ledger":
        dcfg = {"mode": {"bootloader": L.MODE_BOOTLOADER, "signer": L.MODE_SIGNER,
                         "ui-heartbeat": L.MODE_UI_HEARTBEAT, "foreign": MODE_DASHBOARD}[mode],
                "onboarded": onboarded, "pin": devpin, "echo_bad": not echo_ok, "endorsed": onboarded,
                "post_exit_ui": {"mode": L.MODE_SIGNER, "delay": 0.5, "silence": "read_err"},
                "post_exit_ui_nosig": {"mode": MODE_DASHBOARD, "delay": 0.5, "silence": "read_err"}}
        if onb_err:
            dcfg["onboard_error"] = onb_err
        if mode_err:
            dcfg["mode_error"] = mode_err
        dev = AdminLedgerDevice(ch, clock, log, seed=seed, cfg=dcfg)
        main, prog = adm_ledger.main, "adm_ledger.py"
        pinflag = "-p"
    else:
        dcfg = {"onboarded": onboarded, "pin": devpin, "echo_bad": not echo_ok,
                "locked": mode == "bootloader"}
        if onb_err:
            dcfg["onboard_error"] = onb_err
        if mode_err:
            dcfg["mode_error"] = mode_err
        dev = SgxAdminDevice(ch, clock, log, seed=seed, cfg=dcfg)
        main, prog = adm_sgx.main, "adm_sgx.py"
        pinflag = "-P"
    w = AdminWorld(ch, dev, platform=platform)
    op = w.operator
    pin = make_pin(ch, pinkind)
    # which PIN plays which role
    argv = [prog, command]
    typed = []
    if command in ("unlock", "pubkeys"):
        unlock_pin = devpin.decode() if pinkind == "valid" else pin
        if unlock_pin is not None and not via_prompt:
            argv += [pinflag, unlock_pin]
        elif unlock_pin is not None:
            typed = ["!!"] * bad_attempts + [unlock_pin]
        new_pin = None
    elif command == "changepin":
        if not flag2:
            argv += [pinflag, devpin.decode()]
        new_pin = pin
        if new_pin is not None and not via_prompt:
            argv += ["-n", new_pin]
        elif new_pin is not None:
            typed = ["!!", "12"][:bad_attempts] + [new_pin]
    else:
        new_pin = pin
        if new_pin is not None and not via_prompt:
            argv += [pinflag, new_pin]
        elif new_pin is not None:
            typed = ["!!", "12"][:bad_attempts] + [new_pin]
    if any_pin:
        argv.append("-a")
    if flag2 and command in ("changepin", "pubkeys"):
        argv.append("-u")
    if flag2 and command == "unlock" and platform == "ledger":
        argv.append("-e")
    if command == "onboard" and platform == "ledger":
        argv += ["-o", "/simfs/attestation-setup.json"]
    if command == "pubkeys":
        argv += ["-o", "/simfs/keys.txt"]
    if typed and 1 <= ws_kind <= 4 and command in ("onboard", "changepin"):
        last = typed[-1]
        typed = typed[:-1] + [[last + " ", " " + last, last + "\t", last + "\r"][ws_kind - 1], last]
    # the PIN the tool will end up using: the first typed entry its validation accepts
    def acceptable(p, anyp):
        if not p.isascii() or not p.isalnum():
            return False
        return anyp or (len(p) == 8 and any(c.isalpha() for c in p))
    if typed:
        eff_any = any_pin if command in ("onboard", "changepin") else True
        eff = next((t for t in typed if acceptable(t, eff_any)), None)
        if command in ("onboard", "changepin"):
            pin = eff
        if command == "onboard" and platform == "ledger" and eff is not None:
            typed = typed + [eff]          # the operator types it again for the unlock that follows
    op.getpass_script = list(typed)
    replug = getattr(dev, "replug", None)
    if comes_back_blank and replug is not None and command == "onboard":
        _plain_replug = replug

        def replug():
            _plain_replug()
            dev.onboarded = False
            dev.pin = None
    op.stdin_script = [(a, None) for a in answers] + [("", replug)]
    swapped = {}
    if swap:
        swap_to = ch.pick(["onboarded", "unlocked", "blank"], "swap.to")
        swap_at = ch.draw(2, "swap.prompt")

        def on_prompt():
            if "to" in swapped or op.prompts - 1 != swap_at:
                return
            swapped["to"] = swap_to
            (hid_sever if platform == "ledger" else tcp_sever)(w.link)
            _pr = getattr(dev, "replug", None)
            _pr and _pr()
            if swap_to == "blank":
                dev.onboarded, dev.pin = False, None
            else:
                dev.onboarded, dev.pin = True, b"0therPin"
            if platform == "ledger":
                dev.mode = L.MODE_SIGNER if swap_to == "unlocked" else L.MODE_BOOTLOADER
            else:
                dev.locked = swap_to != "unlocked"
        op.on_prompt = on_prompt
    start = {"onboarded": dev.onboarded, "pin": dev.pin, "mode": dev.mode,
             "locked": getattr(dev, "locked", None)}
    # link fault (seeded runs, Ledger): the answer to one exchange is lost after the device acted, or
    # the exchange fails - whatever the tool does next must still respect the preconditions as they
    # are *then* (a device that has just been onboarded is onboarded)
    lfault = {}
    if link_fault_run:
        # addressed by instruction (the n-th exchange of one kind): wipe, seed word, PIN byte, unlock,
        # PIN change, onboarded query, echo, mode query, exit
        ins = ch.pick({"onboard": [0x07, 0x07, 0x44, 0x41, 0x06], "changepin": [0x08, 0x08, 0x41, 0xFE],
                       "unlock": [0xFE, 0x41, 0x06, 0x02]}.get(command, [0xFE, 0x04, 0x43, 0xFF]),
                      "link-fault.ins")
        nth = ch.pick([0, 0, 1, 8, 31], "link-fault.nth")
        lkind = ch.pick(["timeout_after", "read_err_after", "timeout_before", "write_err", "timeout_late"],
                        "link-fault.kind")
        seen_ins = {"n": 0}

        def lfn(i, apdu):
            if len(apdu) > 1 and apdu[0] == 0x80 and apdu[1] == ins and "fired" not in lfault:
                seen_ins["n"] += 1
                if seen_ins["n"] - 1 == nth:
                    lfault["fired"] = lkind
                    return lkind
            return None
        w.link.fault_fn = lfn
    status, out = w.run_tool(main, argv)
    if platform == "ledger":
        w.link.fault_fn = None
    w.entropy_on = False
    viol = []
    desc = "%s %s | device: mode=%s onboarded=%s echo_ok=%s | operator: pin=%r via=%s anypin=%s " \
           "answers=%s flag=%s -> exit %s" % (platform, " ".join(argv[1:]), mode, onboarded, echo_ok,
                                               pin, "prompt" if via_prompt else "argv", any_pin,
                                               answers, flag2, status)
    ctx = dev.ctxlog
    said_yes = False
    for a in answers:
        if a.lower() in ("n", "no"):
            break
        if a.lower() == "yes":
            said_yes = True
            break
    in_boot = (lambda m: m == L.MODE_BOOTLOADER) if platform == "ledger" else (lambda m: m == "locked")
    # ---- V1: seed / PIN / wipe only under the onboarding preconditions
    onboard_apdus = [c for c in ctx if c[2][0] == 0x80 and c[2][1] in (0x44, 0x07, 0xA0)]
    pre = mode == "bootloader" and echo_ok and not onboarded and said_yes and command == "onboard" \
        and not mode_err
    if onboard_apdus and not pre:
        viol.append(("onboard/preconditions", desc))
    if command == "onboard" and platform == "ledger" and not pre:
        # PIN bytes may only follow a legitimate onboarding (the later unlock belongs to it)
        if any(c[2][0] == 0x80 and c[2][1] == 0x41 for c in ctx):
            viol.append(("onboard/pin-sent-without-preconditions", desc))
    # ---- V1b: per APDU - nothing of an onboarding reaches a device that is onboarded at that moment
    for m, onb, apdu in ctx:
        if apdu[0] == 0x80 and apdu[1] in (0x44, 0x07, 0xA0) and onb:
            viol.append(("onboard/to-onboarded-device", desc + " (APDU %02x while the device is onboarded%s)"
                         % (apdu[1], ", link fault %s" % lfault["fired"] if lfault.get("fired") else "")))
            break
    seeds = [hs for hs, _ in dev.seeds_received]
    if len(set(seeds)) != len(seeds):
        viol.append(("onboard/seed-reused", desc + " the same seed was sent for %d onboardings" % len(seeds)))
    # ---- V2: a fresh 32-byte random seed
    for hs, count in dev.seeds_received:
        if count != 32 or len(hs) != 32:
            viol.append(("onboard/seed-size", desc + " seed bytes %d" % count))
        elif hs not in w.entropy_served:
            viol.append(("onboard/seed-not-from-entropy",
                         desc + " seed %s, entropy served %s" % (
                             hs.hex(), [e.hex()[:16] for e in w.entropy_served][:4])))
    # ---- V3: unlock only for an onboarded device in bootloader mode
    for m, onb, apdu in ctx:
        if apdu[0] == 0x80 and apdu[1] in (0xFE, 0xA3):
            if not (onb and in_boot(m)):
                viol.append(("unlock/preconditions", desc + " (unlock APDU with mode=%s onboarded=%s)"
                             % (m, onb)))
                break
    if platform == "ledger":
        # PIN bytes that belong to an unlock (the run of SEND_PIN ends in UNLOCK)
        seg = []
        for m, onb, apdu in ctx:
            if apdu[0] != 0x80:
                continue
            if apdu[1] == 0x41:
                seg.append((m, onb))
            elif apdu[1] == 0xFE:
                if any(not (o2 and m2 == L.MODE_BOOTLOADER) for m2, o2 in seg):
                    viol.append(("unlock/pin-sent-preconditions", desc))
                    break
                seg = []
            elif apdu[1] in (0x08, 0x07):
                seg = []
    # ---- V4: onboarding / change PINs satisfy the policy unless any-PIN was allowed
    for kind, p in dev.pins_seen:
        if kind in ("onboard", "newpin") and not pin_policy_ok(p) and not any_pin:
            viol.append(("pin/policy", desc + " sent %s PIN %r" % (kind, p)))
    # ---- V5: when the preconditions hold the operation is carried out
    good_pin = pin is not None and pin_policy_ok(pin.encode())
    if onb_err or mode_err or lfault.get("fired") or comes_back_blank or swapped:
        good_pin = False
        pinkind = pinkind if pinkind != "valid" else "valid-but-undeterminable"
    if command == "onboard" and pre and good_pin:
        if not dev.onboarded or dev.pin != pin.encode():
            viol.append(("onboard/not-carried-out", desc))
        if platform == "ledger" and (status != 0 or "/simfs/attestation-setup.json" not in w.fs.files):
            viol.append(("onboard/attestation-setup-missing", desc + " | " + out[-200:]))
    can_unlock = onboarded and mode == "bootloader" and echo_ok and not swapped and not mode_err
    if command == "unlock" and can_unlock and pinkind == "valid":
        unlocked = (dev.mode != L.MODE_BOOTLOADER) if platform == "ledger" else (not dev.locked)
        if not unlocked or status != 0:
            viol.append(("unlock/not-carried-out", desc))
    if command == "changepin" and can_unlock and good_pin and not flag2:
        if dev.pin != pin.encode() or status != 0:
            viol.append(("changepin/not-carried-out", desc + " device pin %r" % dev.pin))
    # ---- V6: public keys written are the device's keys for the six documented paths
    if command == "pubkeys":
        reached_signer = (dev.mode == L.MODE_SIGNER) if platform == "ledger" else (not dev.locked)
        if status == 0:
            data = w.fs.files.get("/simfs/keys.json")
            try:
                doc = json.loads(data.decode())
            except Exception:
                doc = None
            want = {p: dev.pubkey_for(path_binary(p)).hex() for p in ORDERED_PATHS}
            if doc != want:
                viol.append(("pubkeys/content", desc + " file %r" % (doc,)))
        elif lfault.get("fired") or swapped or mode_err:
            pass
        elif reached_signer and onboarded and (pinkind == "valid" or flag2 or mode == "signer"):
            if mode == "signer" and not flag2:
                pass       # unlock refuses an already unlocked device: the tool stops (by design)
            else:
                viol.append(("pubkeys/not-carried-out", desc + " | " + out[-200:]))
    st = (platform, command, mode, onboarded, echo_ok, pinkind, via_prompt, bad_attempts,
          tuple(answers), any_pin, flag2)
    return {"violations": viol, "digest": w.log.digest(), "state": st,
            "nontrivial": len(ctx) > 0,
            "faults": dict(w.link.stats.faults) if platform == "ledger" else {},
            "probes": {"status.%s" % status: 1, "cmd." + command: 1,
                       "onboarded_now": int(dev.onboarded and not onboarded),
                       "pin_changed": int(dev.pin != start["pin"]),
                       "device_swapped_at_prompt": int(bool(swapped))},
            "sim_s": w.clock.elapsed,
            "sample": {"argv": argv, "device": {"mode": mode, "onboarded": onboarded,
                                                "echo_ok": echo_ok},
                       "operator": {"typed": typed, "answers": answers},
                       "exit_status": status, "stdout_tail": out[-160:]}}


ENUM_LABELS = ["platform", "command", "mode", "not-onboarded", "echo-bad", "pin-kind", "pin-via-prompt",
               "invalid-attempts-first", "answers", "anypin", "nounlock/noexec", "onboarded-query-fails",
               "mode-query-fails", "link-fault", "replug-comes-back-blank", "typed.whitespace",
               "device-swapped-at-prompt"]


class _Enum:
    def __init__(self, tier):
        import itertools
        # the trailing zeros switch the seeded-only dimensions off (failing onboarded query, link
        # fault, blank re-plug, device swap): an enumerated case is exactly the listed scenario
        self.items = [list(c) + [0, 0, 0, 0, 0, 0] for c in itertools.product(*DIMS)]

    def __len__(self):
        return len(self.items)

    def __getitem__(self, i):
        return self.items[i]


_ENUM = {}


def ENUM(tier):
    if tier not in _ENUM:
        _ENUM[tier] = _Enum(tier)
    return _ENUM[tier]


def _m(owner_path, name, old, new, count=1):
    def apply():
        import importlib
        modname, _, clsname = owner_path.rpartition(".")
        try:
            owner = importlib.import_module(owner_path)
        except ImportError:
            owner = getattr(importlib.import_module(modname), clsname)
        return patch_function(owner, name, old, new, count)
    return apply


MUTANTS = {
    "onboard-skips-echo": _m("admin.onboard", "do_onboard", "if not hsm.echo():", "if False:"),
    "onboard-ignores-already-onboarded": _m("admin.onboard", "do_onboard", "if is_onboarded:",
                                            "if False:"),
    "onboard-any-answer-is-yes": _m("admin.onboard", "do_onboard",
                                    'if answer.lower() == "yes":', "if answer:"),
    "seed-is-constant": _m("admin.onboard", "gen_seed", "return os.urandom(SEED_SIZE)",
                           "return bytes(SEED_SIZE)"),
    "seed-from-pin": _m("admin.onboard", "do_onboard", "seed = gen_seed()",
                        "import hashlib; seed = hashlib.sha256(pin).digest()"),
    "seed-31-bytes-on-wire": _m("ledger.hsm2dongle.HSM2Dongle", "onboard",
                                "for i, b in enumerate(seed):", "for i, b in enumerate(seed[:31]):"),
    "argv-pin-not-validated-on-onboard": _m(
        "admin.onboard", "do_onboard", "if not BasePin.is_valid(options.pin.encode()):", "if False:"),
    "changepin-any-pin-always": _m(
        "admin.changepin", "do_changepin", "any_pin=options.any_pin):", "any_pin=True):"),
    "prompt-accepts-any-pin": _m("admin.misc", "ask_for_pin",
                                 "while pin is None or not BasePin.is_valid(pin, any_pin):",
                                 "while pin is None:"),
    "unlock-not-onboarded-ignored": _m("admin.unlock", "do_unlock", "if not is_onboarded:",
                                       "if False:"),
    "pubkeys-wrong-path-order": _m("admin.pubkeys", "do_get_pubkeys",
                                   "pubkeys[path_name] = hsm.get_public_key(path)",
                                   "pubkeys[path_name] = hsm.get_public_key(PATHS['btc'])"),
    "policy-reads-bytes-as-latin1": _m("ledger.pin.BasePin", "is_valid",
                                       "if not all(map(lambda c: chr(c) in cls.POSSIBLE_CHARS, pin)):",
                                       "if not all(map(lambda c: chr(c).isalnum(), pin)):"),
    "policy-allows-digits-only": _m("ledger.pin.BasePin", "is_valid",
                                    "return any(map(lambda c: chr(c) in cls.ALPHA_CHARS, pin))",
                                    "return True"),
}

if __name__ == "__main__":
    import checks.c18 as _me
    batch.main(_me)
