"""C05 - advanceBlockchain / updateAncestorBlock hand the device the client's
blocks intact.  Two-party protocol simulation as C01; the incremental
block/metadata/brother oracle lives in the device model."""
import struct

from sim import boot
boot.boot()

from sim import batch                       # noqa: E402
from sim.world import World                 # noqa: E402
from sim.mutate import patch_function       # noqa: E402
from refs import rsk                        # noqa: E402
from sim.devices import ledger as L         # noqa: E402

PROPERTY = "C05"
LEVEL = "exploration"
RULE = ("one run = bring-up + 1..3 generated advanceBlockchain / updateAncestorBlock requests in one "
        "manager lifetime (one in five meets a link fault at a drawn exchange, at most one per lifetime) "
        "(headers from an independent RLP encoder, coinbase transactions compressed with an "
        "independent SHA-256 core at a drawn 64-byte split) against a Signer model whose chunk "
        "sizes, per-header termination (exact/late/early), brother requests, stop-after-k and "
        "partial/total answer are seeded draws; non-trivial = at least one block header was "
        "relayed; distinct = tuple (command, #blocks, field-count set, #brothers, brothers "
        "asked pattern, stop class, termination classes seen, tiny-header flag)")
TIERS = {"quick": {"runs": 24000, "wall": 240}, "thorough": {"runs": 400000, "wall": 3000}}
COMPONENTS = {
    "real": ["comm.server._RequestHandler", "comm.protocol", "ledger.protocol",
             "ledger.hsm2dongle (_do_block_operation, _send_block_header, _send_data_in_chunks)",
             "ledger.block_utils", "comm.pow", "thirdparty.sha256", "rlp",
             "ledgerblue.comm.HIDDongleHIDAPI", "ledgerblue.ledgerWrapper"],
    "stub": ["hid (simulated USB link)", "Signer application model (bc_advance.c / bc_ancestor.c "
             "op sequencing, no block validation)", "clock"],
}
ASSUMPTIONS = [
    "device model implements the firmware's op sequencing and chunk discipline, not block validation",
    "headers are canonical RLP (rlp.decode is strict); merge-mining payload < 64 KiB",
    "brothers of one block are pairwise distinct (documented requirement)",
]


def SIM_CFG(tier):
    if tier == "thorough":
        return {"max_blocks": 40, "max_bro": 10, "max_cb": 4000}
    return {"max_blocks": 8, "max_bro": 10, "max_cb": 600}


def expect_entry(hdr, ancestor):
    mm = struct.pack(">H", rsk.mm_payload_len(hdr))
    if ancestor:
        return {"meta": mm, "bytes": rsk.stripped(hdr), "brothers": []}
    return {"meta": mm + rsk.coinbase_hash(hdr["full_cb"]), "bytes": hdr["raw"], "brothers": []}


def gen_blocks_request(ch, cfg, ancestor=None, earlier=None):
    """earlier: headers sent earlier in the same manager lifetime (list, appended to)"""
    if ancestor is None:
        ancestor = ch.draw(3, "cmd.ancestor") == 1
    nblocks = ch.pick([1, 2, 3, cfg["max_blocks"]], "nblocks")
    tiny = ch.draw(12, "tiny") == 1
    blocks = []
    exp_blocks = []
    brothers = []
    nfset = set()
    nbro_total = 0
    parent = ch.bytes(32, "parent")
    for i in range(nblocks):
        nf = ch.pick([19, 20], "nf") if not ancestor else ch.pick([19, 20, 17, 18], "nf")
        hdr = rsk.gen_header(ch, nfields=nf, parent=parent, tiny=tiny, max_cb=cfg["max_cb"])
        if earlier and not ancestor and not tiny and ch.draw(3, "twin-of-earlier") == 1:
            # the same header again with another merge-mining proof / coinbase transaction
            hdr = rsk.twin_header(ch, earlier[ch.draw(len(earlier), "twin.which")], cfg["max_cb"])
            nf = hdr["nfields"]
        if earlier is not None and not tiny and hdr["nfields"] in (19, 20):
            earlier.append(hdr)
        nfset.add(nf)
        blocks.append(hdr["raw"].hex())
        e = expect_entry(hdr, ancestor)
        if not ancestor:
            nb = ch.pick([0, 0, 1, 2, 3, cfg["max_bro"]], "nbro")
            bros = []
            seen = set()
            for j in range(nb):
                b = rsk.gen_header(ch, nfields=ch.pick([19, 20], "bro.nf"), parent=parent,
                                   max_cb=200)
                if earlier and ch.draw(4, "bro.twin-of-earlier") == 1:
                    b = rsk.twin_header(ch, earlier[ch.draw(len(earlier), "bro.twin.which")], 200)
                h = rsk.block_hash(b)
                if h == rsk.block_hash(hdr):
                    continue
                if h in seen:
                    continue
                seen.add(h)
                bros.append((h, b))
            if bros and ch.draw(6, "bro.repeated") == 1:
                # the same brother listed twice: the device is sent what the client listed (and says
                # what it thinks of it), not a tidied-up list
                bros.insert(ch.draw(len(bros) + 1, "bro.repeated.at"), bros[ch.draw(len(bros), "bro.repeated.which")])
            order = ch.draw(3, "bro.order")
            if order == 1:
                bros.sort(key=lambda x: x[0])
            elif order == 2:
                bros.sort(key=lambda x: x[0], reverse=True)
            brothers.append([b["raw"].hex() for _, b in bros])
            e["brothers"] = [expect_entry(b, False) for _, b in sorted(bros, key=lambda x: x[0])]
            nbro_total += len(bros)
        exp_blocks.append(e)
    stop = None
    stopclass = "all"
    if ch.draw(3, "stop") == 1:
        n = ch.int_between(1, nblocks, "stop.n")
        partial = (not ancestor) and ch.draw(2, "stop.partial") == 1
        stop = {"n": n, "partial": partial}
        stopclass = "partial" if partial else ("early-total" if n < nblocks else "all")
    elif not ancestor and ch.draw(4, "partial.at.end") == 1:
        stop = {"n": nblocks, "partial": True}
        stopclass = "partial-at-end"
    ask = [ch.draw(2, "ask") == 1 for _ in range(ch.int_between(1, 4, "ask.n"))] \
        if not ancestor else None
    exp = {"kind": "blocks", "blocks": exp_blocks, "stop_after": stop, "ask_brothers": ask}
    if ancestor:
        req = {"command": "updateAncestorBlock", "blocks": blocks, "version": 5}
    else:
        req = {"command": "advanceBlockchain", "blocks": blocks, "brothers": brothers,
               "version": 5}
    info = {"ancestor": ancestor, "nblocks": nblocks, "nfset": nfset, "nbro_total": nbro_total,
            "ask": ask, "stopclass": stopclass, "tiny": tiny, "stop": stop,
            "brothers": brothers, "blocks": blocks}
    return req, exp, info


LINK_FAULTS = ["timeout_after", "timeout_before", "read_err_after", "read_err_before", "write_err"]


def run_one(ch, cfg):
    arm = {}

    def fault_fn(idx, apdu):
        if arm.get("at") == idx:
            arm["fired"] = arm["kind"]
            return arm["kind"]
        return None
    w = World(ch, fault_fn=fault_fn)
    w.arm = arm
    w.bring_up()
    # history: one manager lifetime serves 1..3 requests (advance and ancestor updates mixed); each is
    # judged on its own
    nreq = [1, 1, 2, 3][ch.draw(4, "requests-in-lifetime")]
    out = None
    viol = []
    for _ in range(nreq):
        res = _one_request(w, ch, cfg)
        viol.extend(res["violations"])
        if out is None:
            out = res
    out["violations"] = viol
    out["digest"] = w.log.digest()
    out["sim_s"] = w.clock.elapsed
    out["probes"] = dict(w.device.probes)
    out["faults"] = dict(w.link.stats.faults)
    out["probes"]["requests_%d" % nreq] = 1
    return out


def _one_request(w, ch, cfg):
    dev = w.device
    if not hasattr(w, "earlier_headers"):
        w.earlier_headers = []
    if ch.draw(6, "refused-request-first") == 1:
        # history: a request the manager has to refuse came first (a header whose coinbase field is
        # hostile: midstate byte counter at the extremes, odd tail lengths); whatever it answered, the
        # request judged next is relayed on its own terms
        h = rsk.gen_header(ch, nfields=ch.pick([19, 20], "poison.nf"), max_cb=100)
        counter = ch.pick([b"\xff" * 8, b"\x20" + b"\x00" * 7, b"\x80" + b"\x00" * 7,
                           ch.bytes(8, "poison.counter")], "poison.counter.kind")
        h["fields"][-1] = counter + ch.bytes(ch.pick([33, 45, 95, 200, 32, 64], "poison.tail.n"),
                                             "poison.tail")
        dev.expect = None
        w.request({"command": "advanceBlockchain", "blocks": [rsk.rlp_list(h["fields"])[0].hex()],
                   "brothers": [[]], "version": 5})
        del dev.violations[:]
    req, exp, info = gen_blocks_request(ch, cfg, earlier=w.earlier_headers)
    ancestor, nblocks, nfset = info["ancestor"], info["nblocks"], info["nfset"]
    nbro_total, ask, stopclass, tiny = info["nbro_total"], info["ask"], info["stopclass"], info["tiny"]
    stop, brothers, blocks = info["stop"], info["brothers"], info["blocks"]
    dev.expect = exp
    n_before = len(dev.apdus)
    # one request in five meets a link fault at one of its exchanges (an answer that comes too late is
    # not a refused chunk: whatever the manager does next, the device must never be handed other
    # bytes than the client's, and success is claimed only if the device reported it)
    arm = w.arm
    arm.pop("fired", None)
    arm.pop("at", None)
    if ch.draw(5, "link-fault") == 1 and not arm.get("used"):      # at most one per lifetime
        arm["used"] = True
        arm["at"] = w.link.index + ch.draw(40, "link-fault.at")
        arm["kind"] = LINK_FAULTS[ch.draw(len(LINK_FAULTS), "link-fault.kind")]
    t0 = len(w.link.transport)
    rep, exc = w.request(req)
    fired = arm.get("fired")
    fault_at = arm.get("at")
    arm.pop("at", None)
    # the exchange at which the device reported its outcome (total / partial success): whatever the
    # manager chooses to do on the link after that does not take the outcome back
    out_i = next((e[1] for e in w.link.transport[t0:] if e[0] == "xchg" and len(e) == 5 and
                  len(e[2]) > 1 and e[2][1] in (L.INS_ADVANCE, L.INS_UPD_ANCESTOR) and
                  len(e[3]) >= 3 and e[3][2] in (0x05, 0x06)), None)
    viol = list(dev.violations)
    del dev.violations[:]
    if exc is not None:
        viol.append(("reply/exception", "%s: %s" % (type(exc).__name__, exc)))
    result = exp.get("result")
    if not isinstance(rep, dict) or type(rep.get("errorcode")) is not int:
        viol.append(("reply/malformed", "reply %r" % (rep,)))
    else:
        code = rep["errorcode"]
        want = {"success": 0, "partial": 1}.get(result)
        if fired and out_i is not None and fault_at is not None and fault_at > out_i and want is not None:
            if code != want:
                viol.append(("reply/outcome-overridden-after-the-device-reported-it",
                             "device reported %s at exchange %d; link fault %s at exchange %d; "
                             "errorcode=%d" % (result, out_i, fired, fault_at, code)))
        elif fired:
            if code in (0, 1) and code != want:
                viol.append(("reply/false-success", "link fault %s, device reported %s but errorcode=%d"
                             % (fired, result, code)))
            elif code not in (0, 1, -905):
                viol.append(("reply/code-after-link-fault", "link fault %s -> errorcode %d" % (fired, code)))
        elif want is None:
            if not viol:
                viol.append(("reply/no-result", "device never reported an outcome; reply %r"
                             % (rep,)))
        elif code != want:
            viol.append(("reply/code", "device reported %s but errorcode=%d" % (result, code)))
    if exp.get("seen_count") is None and not viol and not fired:
        viol.append(("blocks/no-init", "no INIT reached the device"))
    state = ("anc" if ancestor else "adv", nblocks, tuple(sorted(nfset)), nbro_total,
             tuple(ask or ()), stopclass, tiny,
             tuple(sorted(k for k in dev.probes if k.startswith("adv."))))
    return {"violations": viol, "digest": w.log.digest(), "state": state,
            "nontrivial": len(dev.apdus) > n_before + 1, "faults": dict(w.link.stats.faults),
            "probes": dict(dev.probes), "sim_s": w.clock.elapsed,
            "sample": {"command": req["command"], "blocks": [b[:80] + "...(%d bytes)" % (len(b) // 2)
                                                              for b in blocks[:3]],
                       "nblocks": nblocks, "brothers_per_block": [len(x) for x in brothers],
                       "device_policy": {"stop_after": stop, "ask_brothers": ask},
                       "reply": rep}}


def _m(owner_path, name, old, new):
    def apply():
        import importlib
        modname, _, clsname = owner_path.rpartition(".")
        try:
            owner = importlib.import_module(owner_path)
        except ImportError:
            owner = getattr(importlib.import_module(modname), clsname)
        return patch_function(owner, name, old, new)
    return apply


D = "ledger.hsm2dongle.HSM2Dongle"
MUTANTS = {
    "mm-length-little-endian": _m(D, "_send_block_header",
                                  '2, byteorder="big", signed=False', '2, byteorder="little", signed=False'),
    "count-little-endian": _m(D, "_do_block_operation",
                              'len(blocks).to_bytes(4, byteorder="big"', 'len(blocks).to_bytes(4, byteorder="little"'),
    "brothers-not-sorted": _m(D, "advance_blockchain",
                              "sorted(brolist,", "list(brolist) or sorted(brolist,"),
    "brothers-sorted-descending": _m(D, "advance_blockchain",
                                     "key=lambda bh: bytes.fromhex(get_block_hash(bh))",
                                     "key=lambda bh: bytes.fromhex(get_block_hash(bh)), reverse=True"),
    "brothers-sorted-by-raw-bytes": _m(D, "advance_blockchain",
                                       "key=lambda bh: bytes.fromhex(get_block_hash(bh))",
                                       "key=lambda bh: bytes.fromhex(bh)"),
    "brothers-of-next-block": _m(D, "_do_block_operation",
                                 "brother_list = brothers[block_number-1]",
                                 "brother_list = brothers[min(block_number, len(brothers)-1)]"),
    "cb-hash-not-reversed": _m("comm.pow", "coinbase_tx_get_hash",
                               "bytes(reversed(hashlib.sha256(hash_round1).digest())).hex()",
                               "hashlib.sha256(hash_round1).digest().hex()"),
    "cb-hash-of-compressed": _m("comm.pow", "coinbase_tx_get_hash",
                                "hash_round1 = hash_round1.digest()",
                                "hash_round1 = hashlib.sha256(tx).digest()"),
    "ancestor-not-stripped": _m(D, "update_ancestor",
                                "optimized_blocks = list(map(remove_mm_fields_if_present, blocks))",
                                "optimized_blocks = list(blocks)"),
    "strip-drops-btc-header-too": _m("ledger.block_utils", "remove_mm_fields_if_present",
                                     "block[:-2] if leave_btcblock else block[:-3]",
                                     "block[:-3]"),
    "mm-size-keeps-btc-header": _m("ledger.block_utils", "rlp_mm_payload_size",
                                   "leave_btcblock=False", "leave_btcblock=True"),
    "partial-reported-as-total": _m("ledger.protocol.HSM2ProtocolLedger", "_translate_advance_result",
                                    "DERR.OK_PARTIAL: self.ERROR_CODE_OK_PARTIAL",
                                    "DERR.OK_PARTIAL: self.ERROR_CODE_OK"),
    "blocks-reversed": _m(D, "_do_block_operation",
                          "for block_number, block in enumerate(blocks, 1):",
                          "for block_number, block in enumerate(blocks[::-1], 1):"),
    "brother-meta-from-block": _m(D, "_do_block_operation",
                                  'header_name="brother",\n block=brother,',
                                  'header_name="brother",\n block=block if len(brother) % 7 == 0 else brother,'),
}

if __name__ == "__main__":
    import checks.c05 as _me
    batch.main(_me)
