"""C09 - bring-up never endangers the device and never serves from an unsafe state.

One run = the real ManagerRunner.run (real load_pin over the simulated file
system, real TCPServer.run) as a process against one device configuration, plus a
probing client.  Reference decision model refs/bringup.py."""
from sim import boot
boot.boot()

import json                                    # noqa: E402

from sim import batch                          # noqa: E402
from sim.procworld import ProcWorld, PIN_PATH, StepCap   # noqa: E402
from sim.mutate import patch_function          # noqa: E402
from sim.devices import ledger as L            # noqa: E402
from refs import bringup as REF                # noqa: E402

PROPERTY = "C09"
LEVEL = "fault_enumeration"
WORKERS = 24
RULE = ("one run = one bring-up of the real manager process for one configuration: platform {Ledger, "
        "SGX, TCP} x PIN file {valid, absent, invalid, forced change} x onboarded {yes, no, exchange "
        "fails} x reported mode {bootloader, signer, ui-heartbeat, 0xFF, undefined byte} x UI / signer "
        "version triples (grid around 5.4.1 + random) x retries {0,1,2,3,255, exchange fails} x echo "
        "{ok, altered} x unlock {accepted, refused} x new PIN {accepted, refused, error} x (SGX, a quarter "
        "of the runs) another version while locked than after the unlock x (SGX, one run in six) another mode "
        "than signer reported after the unlock x mode after "
        "EXIT {signer, bootloader, ui-heartbeat, gone longer than the wait} x (seeded, one run in five) "
        "one link fault or error status at one of the first 14 exchanges, or (one in eight) the operator's "
        "Ctrl-C at one of the first 40 seams; enumerated: the full "
        "product of the enum dimensions with versions at 5.4.1; seeded: everything incl. version grid; "
        "non-trivial = at least one APDU was exchanged; distinct = the configuration tuple")
TIERS = {"quick": {"runs": 60000, "wall": 240}, "thorough": {"runs": 1500000, "wall": 3000}}
EXHAUSTIVE = {"quick": False, "thorough": False}
MUTANT_RUNS = 4000
MUTANT_WALL = 90
COMPONENTS = {
    "real": ["mgr.runner.ManagerRunner", "manager_ledger.load_pin / manager_sgx.load_pin",
             "ledger.pin.FileBasedPin", "comm.server.TCPServer.run + socketserver",
             "ledger.protocol (initialize_device, _handle_bootloader, _check_version)",
             "ledger.version", "ledger.hsm2dongle", "sgx.hsm2dongle", "ledger.hsm2dongle_tcp",
             "ledgerblue.comm (HID) / ledgerblue.commTCP"],
    "stub": ["device models (UI bootloader, Signer, SGX enclave)", "hid / TCP device link",
             "client network", "file system (SimFS)", "threading (baton scheduler)", "clock",
             "PIN entropy"],
}
ASSUMPTIONS = [
    "an unreadable / invalid PIN file with a device already in signer mode: the property does not "
    "decide whether to serve (the manager stops); not judged",
    "the TCPSigner manager has no PIN: it must never send an unlock",
]

MODES = ["bootloader", "signer", "ui-heartbeat", "unknown", "other"]
PINFILE = ["valid", "absent", "invalid", "forced"]
ONB = ["yes", "no", "error"]
RETRIES = [3, 2, 1, 0, 255, "error"]
POSTEXIT = ["signer", "bootloader", "ui-heartbeat", "gone", "dashboard-then-bootloader"]
NEWPIN = ["accept", "refuse", "error"]
PLATFORMS = ["ledger", "sgx", "tcp"]
DIMS = [PLATFORMS, MODES, PINFILE, ONB, RETRIES, [True, False], [True, False], POSTEXIT, NEWPIN]


def draw_version(ch, label):
    k = ch.draw(4, label + ".kind")
    if k == 0:
        return (5, 4, 1)
    if k in (1, 2):
        return (4 + ch.draw(3, label + ".maj"), ch.draw(7, label + ".min"), ch.draw(4, label + ".pat"))
    return (ch.draw(256, label + ".maj"), ch.draw(256, label + ".min"), ch.draw(256, label + ".pat"))


def run_one(ch, cfg):
    c = {}
    # swarm: "biased" runs start from a healthy configuration and deviate in few dimensions
    # (most of the uniform product is dead on arrival); enumerated prefixes use biased = 0
    biased = ch.draw(4, "biased") != 0

    def dim(values, label):
        if not biased:
            return values[ch.draw(len(values), label)]
        if ch.draw(5, label + ".deviate") == 1:
            return values[ch.draw(len(values), label)]
        return values[0]
    c["platform"] = PLATFORMS[ch.draw(3, "platform")]
    c["mode"] = dim(MODES, "mode") if not biased or ch.draw(3, "mode.signer") else "signer"
    c["pin_file"] = dim(PINFILE, "pin-file")
    c["onboarded"] = dim(ONB, "onboarded")
    r = dim(RETRIES, "retries")
    c["retries_error"] = r == "error"
    c["retries"] = 3 if r == "error" else r
    c["echo_ok"] = dim([True, False], "echo-bad")
    c["unlock_ok"] = dim([True, False], "unlock-refused")
    c["post_exit"] = dim(POSTEXIT, "post-exit")
    c["newpin"] = dim(NEWPIN, "newpin")
    if biased and ch.draw(3, "ver.ok") != 1:
        c["ui_version"] = ch.pick([(5, 4, 1), (5, 4, 0), (5, 0, 3), (5, 3, 9)], "uiver.ok")
        c["signer_version"] = ch.pick([(5, 4, 1), (5, 4, 0), (5, 0, 3), (5, 3, 9)], "sgver.ok")
    else:
        c["ui_version"] = draw_version(ch, "uiver")
        c["signer_version"] = draw_version(ch, "sgver")
    plat = c["platform"]
    two_versions = False
    if plat == "sgx":
        # one application reports one version - except in a quarter of the runs, where the version
        # seen while the enclave is locked differs from the one seen after the unlock (the manager
        # must judge the version it reads *after* unlocking, whatever it read before)
        two_versions = ch.draw(4, "sgx.two-versions") == 1
        if not two_versions:
            c["ui_version"] = c["signer_version"]
        if c["mode"] == "ui-heartbeat":
            c["mode"] = "bootloader"
        # post-unlock mode on SGX (seeded, one run in six): what the enclave reports once unlocked
        pu = ch.draw(6, "sgx.post-unlock-mode")
        if pu == 1 and c["mode"] == "bootloader":
            c["sgx_post_unlock"] = ch.pick(["bootloader", "ui-heartbeat", "unknown"], "sgx.post-unlock.which")
    devpin = b"devpin7x"
    modebyte = {"bootloader": L.MODE_BOOTLOADER, "signer": L.MODE_SIGNER,
                "ui-heartbeat": L.MODE_UI_HEARTBEAT, "unknown": 0xFF, "other": 0x07}[c["mode"]]
    dcfg = {"onboarded": c["onboarded"] != "no", "pin": devpin, "retries": c["retries"],
            "ui_version": c["ui_version"], "signer_version": c["signer_version"],
            "echo_bad": not c["echo_ok"], "unlock_result": None if c["unlock_ok"] else False,
            "newpin": {"accept": "policy", "refuse": "refuse", "error": 0x6A99}[c["newpin"]]}
    if c["onboarded"] == "error":
        dcfg["onboard_error"] = 0x6E00 if ch.draw(2, "onb-err-kind") == 0 else 0x6A99
    if c["retries_error"]:
        dcfg["retries_error"] = 0x6E00
    if plat == "sgx":
        dcfg["two_versions"] = two_versions
        dcfg["locked"] = c["mode"] == "bootloader"
        if c.get("sgx_post_unlock"):
            dcfg["mode_byte_unlocked"] = {"bootloader": L.MODE_BOOTLOADER, "ui-heartbeat": L.MODE_UI_HEARTBEAT,
                                          "unknown": 0xFF}[c["sgx_post_unlock"]]
        if c["mode"] in ("unknown", "other"):
            dcfg["locked"] = ch.draw(2, "sgx.locked") == 0
            dcfg["mode_byte"] = modebyte
            dcfg["mode_byte_unlocked"] = modebyte
    else:
        dcfg["mode"] = {"bootloader": L.MODE_BOOTLOADER, "signer": L.MODE_SIGNER,
                        "ui-heartbeat": L.MODE_UI_HEARTBEAT}.get(c["mode"], L.MODE_SIGNER)
        if c["mode"] in ("unknown", "other"):
            dcfg["mode_byte"] = modebyte
        pe = {"signer": L.MODE_SIGNER, "bootloader": L.MODE_BOOTLOADER,
              "ui-heartbeat": L.MODE_UI_HEARTBEAT, "gone": L.MODE_SIGNER,
              "dashboard-then-bootloader": 0x00}[c["post_exit"]]
        if c["post_exit"] == "dashboard-then-bootloader":
            # the mode query is not understood on the first connection after the exit (dashboard);
            # on the next connection the device is a locked bootloader again
            dcfg["dashboard_then"] = L.MODE_BOOTLOADER
        dcfg["post_exit_ui"] = {"mode": pe, "delay": 30.0 if c["post_exit"] == "gone" else
                                ch.pick([0.2, 0.0, 0.9], "boot-delay"),
                                "silence": ch.pick(["timeout", "read_err"], "exit-silence")}
    # the device may also be absent (unplugged / enclave host down) when the manager starts
    c["present"] = ch.draw(12, "device-absent") != 1
    # seeded only: one exchange of the bring-up fails on the link (answer lost, read / write error,
    # connection closed) or is answered with an error status - the manager may then stop, but what it
    # could not find out it must not assume
    lfault = None
    if ch.draw(5, "link-fault") == 1:
        kinds = ["timeout_after", "read_err_after", "timeout_before", "write_err", "read_err_before"] \
            if plat == "ledger" else ["send_err", "recv_eof", "recv_eof_after"]
        kinds = kinds + [("sw", 0x6E00), ("sw", 0x6A99)]
        lfault = {"at": ch.draw(14, "link-fault.exchange"), "kind": ch.pick(kinds, "link-fault.kind")}
    intr = ch.draw(40, "operator-interrupt.seam") if lfault is None and ch.draw(8, "operator-interrupt") == 1 \
        else None
    w = ProcWorld(ch, platform=plat, device_cfg=dcfg)
    dev = w.device
    if not c["present"]:
        dev.plugged = False
    if intr is not None:
        # the operator's Ctrl-C during the bring-up (KeyboardInterrupt in the main thread at a seam)
        w.interrupt_at = intr

        def _only_bring_up(w_, label):
            if w_.serving():
                w_.interrupt_at = None       # a Ctrl-C of the bring-up, not of the probe
        w.on_seam = _only_bring_up
    if lfault is not None:
        def lfn(i, apdu):
            if i == lfault["at"] and not w.serving():        # a fault of the bring-up, not of the probe
                lfault["fired"] = "%02x" % apdu[1] if len(apdu) > 1 else "?"
                return lfault["kind"]
            return None
        w.link.fault_fn = lfn
    if c["pin_file"] in ("valid", "forced"):
        w.fs.put(PIN_PATH, devpin + (b"\n" if ch.draw(2, "pin.newline") else b""))
    elif c["pin_file"] == "invalid":
        w.fs.put(PIN_PATH, ch.pick([b"short", b"12345678", b"", b"abcd-efg", b"waytoolongpin1"],
                                   "pin.invalid"))
    default_pin = devpin if c["pin_file"] == "absent" else None
    w.start_manager(force_change=(c["pin_file"] == "forced"), default_pin=default_pin)
    k = w.kernel
    res = {}

    def client():
        k.block(lambda: w.serving() or not w.manager_alive(), 600)
        if not w.serving():
            res["probe"] = None
            return
        conn = w.net.connect()
        if conn is None:
            res["probe"] = None
            return
        conn.send(json.dumps({"command": "getPubKey", "keyId": "m/44'/0'/0'/0/0",
                              "version": 5}).encode() + b"\n")
        res["probe"] = conn.drain()
    k.spawn(client, "client")
    outcome = None
    try:
        outcome = k.run(until=lambda: "probe" in res, max_time=7200.0)
    except StepCap:
        outcome = "step-cap"
    viol = []
    served = False
    if res.get("probe"):
        try:
            served = json.loads(res["probe"].decode()).get("errorcode") == 0
        except Exception:
            served = False
    accepted = len(w.net.accept_order) > 0
    allowed = REF.unlock_allowed(c)
    expect = REF.serves(c)
    desc = "config %s; unlock APDUs %d, PIN bytes sent %d, served %s, manager %s" % (
        _cs(c), dev.unlocks, dev.pin_sends, served, w.outcomes.get("mgr0", "running"))
    faulted = (lfault is not None and "fired" in lfault) or bool(w.interrupted)
    if w.interrupted:
        desc += "; Ctrl-C at seam %d (%s)" % (w.interrupted[0][1], w.interrupted[0][2])
    if lfault is not None and "fired" in lfault:
        desc += "; link fault %s at exchange %d (instruction %s)" % (lfault["kind"], lfault["at"],
                                                                    lfault["fired"])
    # ---- rule A: unlock at most once and only when allowed
    if dev.unlocks > 1:
        viol.append(("unlock/more-than-once", desc))
    if dev.unlocks >= 1 and not allowed:
        viol.append(("unlock/not-allowed:%s" % _why_not(c), desc))
    if plat == "ledger" and dev.pin_sends > 0 and not allowed:
        viol.append(("unlock/pin-sent-not-allowed:%s" % _why_not(c), desc))
    # ---- rule B: serves exactly when the reference says so
    if expect is True and not served and not faulted:
        viol.append(("serve/should-serve", desc))
    if expect is True and faulted and not served and (w.manager_alive() or w.serving()):
        # a bring-up that met a fault may give up, but then the process ends
        viol.append(("serve/neither-serving-nor-stopped", desc + " outcome=%s" % outcome))
    if expect is False and (served or accepted):
        viol.append(("serve/unsafe-state:%s" % _why_not_serve(c), desc))
    # ---- rule C: in every non-serving case the process ends without accepting a connection
    if expect is False and (w.manager_alive() or w.serving()):
        viol.append(("serve/did-not-stop", desc + " outcome=%s" % outcome))
    leaked = w.finish()
    st = tuple(sorted((k2, str(v)) for k2, v in c.items()))
    return {"violations": viol, "digest": w.log.digest(), "state": st,
            "nontrivial": len(dev.apdus) > 0,
            "faults": dict(dict(w.link.stats.faults), **({"operator-interrupt": 1} if w.interrupted else {})),
            "probes": {"served": int(served), "unlocked": int(dev.unlocks > 0),
                       "expect.%s" % expect: 1, "platform." + plat: 1,
                       "pin_changed": int(len(dev.newpin_acks) > 0)},
            "sim_s": w.clock.elapsed,
            "sample": {"config": {k2: (list(v) if isinstance(v, tuple) else v)
                                  for k2, v in c.items()},
                       "unlock_apdus": dev.unlocks, "served": served,
                       "manager_outcome": w.outcomes.get("mgr0"), "reference": {
                           "unlock_allowed": allowed, "serves": expect},
                       "leaked_threads": leaked}}


def _cs(c):
    return ",".join("%s=%s" % (k, c[k]) for k in sorted(c))


def _why_not(c):
    if not c.get("present", True):
        return "absent"
    if c["platform"] == "tcp":
        return "tcp"
    if c["pin_file"] == "invalid":
        return "pin-invalid"
    if c["onboarded"] != "yes":
        return "not-onboarded"
    if c["mode"] != "bootloader":
        return "mode-" + c["mode"]
    if not REF.supported(c["ui_version"]):
        return "ui-version"
    if not c["echo_ok"]:
        return "echo"
    if c.get("retries_error"):
        return "retries-error"
    return "retries"


def _why_not_serve(c):
    if not c.get("present", True):
        return "absent"
    if c["onboarded"] != "yes":
        return "not-onboarded"
    if c["mode"] == "bootloader":
        if not REF.unlock_allowed(c):
            return "unlock-not-allowed"
        if not c["unlock_ok"]:
            return "unlock-refused"
        if REF.needs_change(c):
            return "pin-change"
        if c["platform"] != "sgx" and c["post_exit"] != "signer":
            return "post-exit-" + c["post_exit"]
        if c["platform"] == "sgx" and c.get("sgx_post_unlock"):
            return "post-unlock-" + c["sgx_post_unlock"]
        return "signer-version"
    if c["mode"] != "signer":
        return "mode-" + c["mode"]
    return "signer-version"


ENUM_LABELS = ["biased", "platform", "mode", "pin-file", "onboarded", "retries", "echo-bad", "unlock-refused",
               "post-exit", "newpin", "uiver.kind", "sgver.kind"]


class _Enum:
    """full product of the enum dimensions, versions fixed at 5.4.1 (first draw value)"""

    def __init__(self, tier):
        import itertools
        self.items = []
        for combo in itertools.product(*[range(len(d)) for d in DIMS]):
            plat, mode, pinf, onb, ret, echo, unl, pe, npn = combo
            # order of draws in run_one
            # trailing zeros: the seeded-only dimensions stay at their simplest value (one version on
            # SGX, device present, first delay / silence kind), so the case is exactly the listed one
            self.items.append([0, plat, mode, pinf, onb, ret, echo, unl, pe, npn, 0, 0] + [0] * 10)
        if tier == "quick":
            # quick: a deterministic 1-in-8 slice of the product (the seeded part covers the rest)
            self.items = self.items[::8]

    def __len__(self):
        return len(self.items)

    def __getitem__(self, i):
        return self.items[i]


_ENUM = {}


def ENUM(tier):
    if tier not in _ENUM:
        _ENUM[tier] = _Enum(tier)
    return _ENUM[tier]


def _m(owner_path, name, old, new, count=1):
    def apply():
        import importlib
        modname, _, clsname = owner_path.rpartition(".")
        try:
            owner = importlib.import_module(owner_path)
        except ImportError:
            owner = getattr(importlib.import_module(modname), clsname)
        return patch_function(owner, name, old, new, count)
    return apply


P = "ledger.protocol.HSM2ProtocolLedger"
MUTANTS = {
    "min-retries-one": _m(P, "_handle_bootloader", "if retries < self.MIN_AVAILABLE_RETRIES:",
                          "if retries < 1:"),
    "echo-failure-ignored": _m(P, "_handle_bootloader", "if not self.hsm2dongle.echo():", "if False:"),
    "ui-version-unchecked": _m(P, "_handle_bootloader",
                               'self._check_version(self._dongle_ui_version, self.UI_VERSION, "UI")',
                               "pass"),
    "app-version-unchecked": _m(P, "initialize_device",
                                'self._check_version(self._dongle_app_version, self.APP_VERSION, "App")',
                                "pass"),
    "version-newer-minor-accepted": _m("ledger.version.HSM2FirmwareVersion", "supports",
                                       "and self.minor >= running_version.minor", ""),
    "version-patch-ignored": _m("ledger.version.HSM2FirmwareVersion", "supports",
                                "self.minor > running_version.minor or self.patch >= running_version.patch",
                                "True"),
    "not-onboarded-continues": _m(P, "initialize_device", "if not is_onboarded:", "if False:"),
    "unlock-retried-on-mismatch": _m(
        P, "_handle_bootloader", "if not self.hsm2dongle.unlock(self.pin.get_pin()):",
        "if not self.hsm2dongle.unlock(self.pin.get_pin()) and "
        "not self.hsm2dongle.unlock(self.pin.get_pin()):"),
    "continues-after-failed-pin-change": _m(P, "_handle_bootloader", "finally:", "else:"),
    "unlock-refusal-ignored": _m(P, "_handle_bootloader",
                                 "if not self.hsm2dongle.unlock(self.pin.get_pin()):",
                                 "if self.hsm2dongle.unlock(self.pin.get_pin()) is None:"),
    "retries-byte-misread": _m("ledger.hsm2dongle.HSM2Dongle", "get_retries",
                               "return apdu_rcv[2]", "return apdu_rcv[2] or 3"),
}

if __name__ == "__main__":
    import checks.c09 as _me
    batch.main(_me)
