"""C10 - the PIN kept on disk always opens the device.

Histories of manager process lifetimes (real ManagerRunner.run / load_pin /
FileBasedPin / _handle_bootloader) over a simulated file system and device that
survive process crashes: start (file present / absent / invalid, forced change),
device accepts / refuses / errors on the new PIN, link fault on any PIN exchange,
file-system fault at any file operation, crash at any seam, device power cycle,
restart.  Durability invariants I1-I5 (DESIGN.md 4/C10)."""
from sim import boot
boot.boot()

from sim import batch                          # noqa: E402
from sim.procworld import ProcWorld, PIN_PATH, StepCap   # noqa: E402
from sim.mutate import patch_function          # noqa: E402
from sim.devices import ledger as L            # noqa: E402
from sim.devices.ledger import pin_policy_ok   # noqa: E402

PROPERTY = "C10"
LEVEL = "fault_enumeration"
WORKERS = 24
RULE = ("one run = a history of 1..4 manager process lifetimes (quick; 1..6 thorough) on one platform "
        "{Ledger, SGX} from one initial state {no PIN file + default PIN, PIN file present, PIN file "
        "invalid}; per lifetime: forced change or not, device behaviour on the new PIN {accept, refuse, "
        "error, (SGX) answers 0}, and at most one fault {process crash at seam k, file-system fault at "
        "file operation j whatever file it is on (open EPERM/EIO/ENOSPC, short write, torn close, close EIO, "
        "read EIO), link "
        "fault at the n-th PIN exchange (request lost / response lost / time-out)}, optional device power "
        "cycle before the next lifetime; enumerated: every crash seam, every file operation x fault, "
        "every PIN exchange x link fault of the single-lifetime change scenarios, each followed by a "
        "power cycle and a restart; non-trivial = a PIN exchange reached the device; distinct = tuple "
        "(platform, initial state, per-lifetime (force, new-PIN behaviour, fault kind, fault position "
        "class, outcome))")
TIERS = {"quick": {"runs": 30000, "wall": 240}, "thorough": {"runs": 800000, "wall": 3000}}
EXHAUSTIVE = {"quick": False, "thorough": False}
MUTANT_RUNS = 3000
MUTANT_WALL = 90
COMPONENTS = {
    "real": ["mgr.runner.ManagerRunner", "manager_ledger.load_pin / manager_sgx.load_pin",
             "ledger.pin (FileBasedPin, BasePin.generate_pin)", "ledger.protocol._handle_bootloader",
             "ledger.hsm2dongle (unlock, new_pin, _send_pin)", "sgx.hsm2dongle", "comm.server.TCPServer.run",
             "ledgerblue HID / TCP transports"],
    "stub": ["file system (SimFS: CPython buffered-write semantics, process-crash model)",
             "device models (UI bootloader PIN handling from pin.c / unlock.c, SGX access)",
             "hid / TCP link", "PIN entropy (ledger.pin.random seam)", "threading, clock, client network"],
}
ASSUMPTIONS = [
    "process-crash model: completed file-system effects survive, buffered data is lost (the code never "
    "calls fsync; power loss is outside the property)",
    "the PIN file is only touched by the manager; the operator does not delete it between lifetimes",
    "at most one fault per lifetime",
]

NEWPIN = ["accept", "refuse", "error", "zero"]
FK_NONE, FK_CRASH, FK_FS, FK_LINK = range(4)
HID_KINDS = ["write_err", "read_err_before", "read_err_after", "timeout_before", "timeout_after"]
TCP_KINDS = ["send_err", "recv_eof", "recv_eof_after"]
PIN_INS = (0x41, 0xFE, 0x08, 0xA3, 0xA5)
DEFAULT_PIN = b"2f9c1e7a"


def SIM_CFG(tier):
    return {"max_starts": 6 if tier == "thorough" else 4}


def fs_fault_for(op, n):
    if op in ("open-w",):
        return ["eperm", "eio", "enospc"][n % 3]
    if op in ("open-r",):
        return ["eperm", "eio"][n % 2]
    if op == "write":
        return ("short", [0, 3, 7][n % 3])
    if op == "close":
        return [("torn", 0), ("torn", 4), "eio"][n % 3]
    if op == "flush":
        return "eio"
    if op == "read":
        return "eio"
    if op == "chmod":
        return ["eperm", "erofs"][n % 2]
    return None


def change_started(link, t0):
    """The manager began a PIN change in this lifetime: after an answered unlock, a PIN byte or a
    change command was put on the wire (whether or not it arrived)."""
    unlocked = False
    for e in link.transport[t0:]:
        if e[0] == "open":
            unlocked = False          # a new connection: PIN bytes after it belong to its own unlock
        if e[0] != "xchg" or len(e[2]) < 2:
            continue
        ins = e[2][1]
        # (unfaulted entries are (xchg, index, apdu, answer, status); faulted ones carry the kind too)
        answered = len(e) == 5 and e[-1] == "9000"
        if ins in (0xFE, 0xA3) and answered:
            unlocked = True
        elif unlocked and ins in (0x41, 0x08, 0xA5):
            return True
    return False


def file_pin(w):
    data = w.fs.read_bytes(PIN_PATH)
    if data is None:
        return None
    return data.strip()


def candidates(w):
    out = [DEFAULT_PIN]
    fp = file_pin(w)
    if fp is not None:
        out.append(fp)
    return out


def run_one(ch, cfg):
    platform = ["ledger", "sgx"][ch.draw(2, "platform")]
    init = ["absent", "present", "invalid"][ch.draw(3, "initial-state")]
    nstarts = 1 + ch.draw(cfg["max_starts"], "lifetimes")
    digits_first = ch.draw(3, "entropy.digits-first")
    devpin = DEFAULT_PIN if init != "present" else b"Qw3rTy99"
    dcfg = {"pin": devpin, "retries": 3, "onboarded": True}
    if platform == "ledger":
        dcfg["mode"] = L.MODE_BOOTLOADER
        dcfg["post_exit_ui"] = {"mode": L.MODE_SIGNER, "delay": 0.2, "silence": "read_err"}
    else:
        dcfg["locked"] = True
    w = ProcWorld(ch, platform=platform, device_cfg=dcfg, pin_digits_first=digits_first,
                  step_cap=60000)
    dev, k, fs, link = w.device, w.kernel, w.fs, w.link
    if init == "present":
        fs.put(PIN_PATH, devpin)
    elif init == "invalid":
        fs.put(PIN_PATH, ch.pick([b"12345678", b"short", b"", b"bad pin!!"], "invalid-content"))
    viol = []
    life_states = []
    history = []

    def bad(sig, detail):
        viol.append((sig, detail))

    for si in range(nstarts):
        force = ch.draw(2, "force-change") == 1
        newpin = NEWPIN[ch.draw(4, "new-pin-behaviour")]
        if newpin == "zero" and platform != "sgx":
            newpin = "accept"
        fk = ch.draw(4, "fault-kind")
        fp = ch.draw(256, "fault-position")
        cycle = ch.draw(3, "power-cycle") != 2
        dev.cfg["newpin"] = {"accept": "policy", "refuse": "refuse", "error": 0x6A99,
                             "zero": "zero"}[newpin]
        # ---- per-lifetime bookkeeping
        start_file = fs.read_bytes(PIN_PATH)
        start_devpin = dev.pin
        acks_before = len(dev.newpin_acks)
        seen_before = len(dev.pins_seen)
        life = {"force": force, "newpin": newpin, "fault": None, "file_changed_before_ack": False,
                "attempt": False, "lost_ack": False, "commit_fault": False}
        w.crash_at = None
        fs.fault_fn = None
        link.fault_fn = None
        seam0 = w.seam_count
        transport0 = len(link.transport)
        fsop0 = fs.opcount
        pinx = {"n": 0}
        kinds = HID_KINDS if platform == "ledger" else TCP_KINDS
        if fk == FK_CRASH:
            w.crash_at = seam0 + fp
            life["fault"] = ("crash", fp)
        elif fk == FK_FS:
            tgt = fsop0 + (fp // 8) % 16

            def ffn(op, path, i, tgt=tgt, n=fp % 8, life=life):
                # the n-th file operation of the lifetime, whatever file it is on (the unchanged
                # manager touches the PIN file only; a change may add files next to it)
                if i == tgt:
                    f = fs_fault_for(op, n)
                    if f is not None:
                        life["fault"] = ("fs", op, f)
                        if op in ("open-w", "write", "close", "flush", "chmod") and \
                                len(dev.newpin_acks) > acks_before:
                            life["commit_fault"] = "pin-file" if path == PIN_PATH else "other-file"
                            life["commit_fault_op"] = op
                    return f
                return None
            fs.fault_fn = ffn
        elif fk == FK_LINK:
            ordinal = (fp // 8) % 24
            kind = kinds[(fp % 8) % len(kinds)]

            # positions 192..255: the fault does not go away - from that exchange on the link stays
            # broken for the rest of the lifetime (cable pulled, device gone silent)
            persist = fp // 8 >= 24
            if persist:
                # aim at the exchanges of the new PIN (Ledger: the 9th..17th PIN exchange; SGX: any)
                ordinal = 9 + (fp // 8 - 24) if platform == "ledger" else (fp // 8) % 3
            # ... for the next one or two exchanges as well, or for good
            burst = [1, 2, 1000][(fp // 8) % 3]
            gone = {"on": False, "left": 0}

            def lfn(i, apdu, kind=kind, life=life):
                if gone["on"] and gone["left"] > 0:
                    gone["left"] -= 1
                    return kind
                if len(apdu) > 1 and apdu[1] in PIN_INS:
                    n = pinx["n"]
                    pinx["n"] += 1
                    if n == ordinal:
                        life["fault"] = ("link", "%02x" % apdu[1], kind)
                        if apdu[1] in (0x08, 0xA5) and kind in ("read_err_after", "timeout_after",
                                                                "recv_eof_after"):
                            life["lost_ack"] = True
                        gone["on"] = persist
                        gone["left"] = burst
                        return kind
                return None
            link.fault_fn = lfn

        def on_change(path, life=life):
            if path == PIN_PATH and len(dev.newpin_acks) == acks_before:
                life["file_changed_before_ack"] = True
        fs.on_change = on_change
        # a lifetime may start with the device already unlocked in the signer; the PIN is then
        # only touched if the device power-cycles while the manager serves and a later request
        # repairs the connection (bring-up through the bootloader on the reconnection path)
        serve_phase = platform == "ledger" and ch.draw(4, "start-unlocked-then-power-cycle") == 1
        life["serve_phase"] = serve_phase
        # the "crash" may instead be the operator's Ctrl-C (SIGINT): KeyboardInterrupt in the main
        # thread at that seam - handlers and finally blocks run, the process ends when it decides to
        w.interrupt_at = None
        if fk == FK_CRASH and ch.draw(3, "crash-is-operator-interrupt") == 1:
            w.interrupt_at, w.crash_at = w.crash_at, None
            life["fault"] = ("interrupt", fp)
        if serve_phase:
            dev.mode = L.MODE_SIGNER
        accepts_before = len(w.net.accept_order)
        proc_task = w.start_manager(force_change=force, default_pin=DEFAULT_PIN)
        proc = w.cur_proc
        outcome = None
        try:
            outcome = k.run(until=lambda: not w.manager_alive(proc) or w.serving(), max_time=7200.0)
        except StepCap:
            outcome = "step-cap"
        served = w.serving() or len(w.net.accept_order) > accepts_before
        served_after_attempt = False
        if serve_phase and w.serving():
            import json as _json
            replies = []
            done = {}

            impatient = ch.draw(3, "client-gives-up-on-the-repair-request") == 1

            # whichever command the client sends repairs the connection first: the request of this
            # phase is drawn per run (getPubKey twice as often)
            phase_req = ch.pick([
                {"command": "getPubKey", "keyId": "m/44'/0'/0'/0/0", "version": 5},
                {"command": "getPubKey", "keyId": "m/44'/0'/0'/0/0", "version": 5},
                {"command": "signerHeartbeat", "udValue": "aa" * 16, "version": 5},
                {"command": "blockchainState", "version": 5},
                {"command": "blockchainParameters", "version": 5},
                {"command": "resetAdvanceBlockchain", "version": 5},
                {"command": "uiHeartbeat", "udValue": "bb" * 32, "version": 5},
                {"command": "sign", "keyId": "m/44'/137'/0'/0/0", "message": {"hash": "cc" * 32},
                 "version": 5},
                {"command": "updateAncestorBlock", "blocks": ["aabb"], "version": 5},
                {"command": "advanceBlockchain", "blocks": ["aabb"], "brothers": [[]], "version": 5},
            ], "serve-phase.request")

            def ask(gives_up=False):
                c = w.net.connect()
                if c is None:
                    return None
                c.send(_json.dumps(phase_req).encode() + b"\n")
                if gives_up:
                    # the client times out and resets its connection while the device is busy: the
                    # reply cannot be written - the change attempt still has to end the manager
                    c.reset()
                    return b"(client gone)"
                return c.drain()

            def client():
                replies.append(ask())
                # power cycle: the open handle dies, the device comes back in the bootloader
                dev.mode = L.MODE_BOOTLOADER
                dev.pinbuf = bytearray(10)
                dev._reset_ops()
                if link.open_handle is not None:
                    link.open_handle.opened = False
                replies.append(ask())          # link failure -> device error, repair pending
                t3 = len(link.transport)
                replies.append(ask(gives_up=impatient))    # repair: bring-up through the bootloader
                done["attempt_in_repair_request"] = change_started(link, t3)
                attempted = any(kd == "newpin" for kd, _ in dev.pins_seen[seen_before:])
                r4 = ask()                     # is the manager still serving afterwards?
                done["attempted_before_probe"] = attempted
                done["probe"] = r4
                done["ok"] = True
            k.spawn(client, "client-%d" % si)
            try:
                k.run(until=lambda: "ok" in done or not w.manager_alive(proc) and
                      all(t.done or t.wait_pred is None for t in k.tasks if t.name.startswith("client")),
                      max_time=7200.0)
                k.run(until=lambda: "ok" in done, max_time=600.0)
            except StepCap:
                pass
            life["serve_replies"] = [r[:40].decode("latin-1") if r else None for r in replies]
            # the request during which the change was attempted ends the manager: its client sees the
            # reply of a manager going down (no result code), never a regular result code
            if done.get("attempt_in_repair_request") and len(replies) >= 3 and replies[2] and \
                    b'"errorcode"' in replies[2]:
                life["attempt_answered_normally"] = replies[2][:60].decode("latin-1")
            attempted = any(kd == "newpin" for kd, _ in dev.pins_seen[seen_before:]) or \
                change_started(link, transport0)
            if attempted:
                # the shutdown is carried out by a helper thread: a request already queued may still
                # be handled in that window; what must not happen is that the manager keeps running
                try:
                    k.run(until=lambda: not w.manager_alive(proc), max_time=w.clock.elapsed + 120.0)
                except StepCap:
                    pass
                if w.manager_alive(proc) and w.serving():
                    served_after_attempt = True
            served = False
        # the operator stops a serving manager before the next step (kill: nothing is in flight)
        if w.manager_alive(proc):
            k.fence(proc)
            try:
                k.run(until=lambda: not w.manager_alive(proc), max_time=7200.0)
            except StepCap:
                pass
        if w.net.listener is not None:
            w.net.listener.close()
        crashed = any(c[0] == proc for c in w.crashed)
        interrupted = any(c[0] == proc for c in w.interrupted)
        w.interrupt_at = None
        new_acks = dev.newpin_acks[acks_before:]
        new_seen = [p for (kind, p) in dev.pins_seen[seen_before:] if kind == "newpin"]
        life["attempt"] = bool(new_seen) or change_started(link, transport0) or (
            life["fault"] is not None and life["fault"][0] == "link" and life["fault"][1] in ("08", "a5"))
        end_file = fs.read_bytes(PIN_PATH)
        tag = "life %d/%d (%s, init %s, force=%s, device %s, fault %s, outcome %s)" % (
            si + 1, nstarts, platform, init, force, newpin, life["fault"], w.outcomes.get(proc))
        # ---- I3: generated PINs satisfy the device policy
        for p in new_seen:
            if not pin_policy_ok(p):
                bad("I3/pin-policy", "%s: new PIN %r sent to the device" % (tag, p))
        # ---- I1a: the file changes only after the device acknowledged a new PIN
        if life["file_changed_before_ack"]:
            bad("I1/file-changed-before-ack", tag)
        # ---- I1b / I2 at the quiescent point
        cause = None
        if new_acks:
            if crashed:
                cause = "ack-then-crash-before-commit"
            elif interrupted:
                cause = "ack-then-interrupt-before-commit"
            elif life["commit_fault"] == "pin-file":
                # (the call site is part of the cause: the write of the PIN file fails at its open,
                # write or close - an error at any other call is another finding)
                cause = "commit-io-error:" + life["commit_fault_op"]
            elif life["commit_fault"]:
                cause = "io-error-on-another-file"
            elif life["lost_ack"]:
                cause = "ack-lost-on-link"
            if end_file is None or end_file.strip() != new_acks[-1]:
                bad("I1/file-does-not-hold-acknowledged-pin/%s" % (cause or "no-fault"),
                    "%s: device acknowledged %r, file holds %r" % (tag, new_acks[-1], end_file))
        else:
            if end_file != start_file:
                bad("I2/file-changed-without-ack", "%s: file %r -> %r" % (tag, start_file, end_file))
            if dev.pin != start_devpin:
                bad("I2/device-pin-changed-without-ack", tag)
        if life.get("attempt_answered_normally"):
            bad("I4/change-attempt-answered-with-a-result-code", "%s: the request that attempted the "
                "change was answered %s and the manager went on" % (tag, life["attempt_answered_normally"]))
        # ---- I4: after any change attempt the process stops without serving
        if life["attempt"] and (served or served_after_attempt):
            bad("I4/served-after-change-attempt%s" % ("/on-reconnection" if served_after_attempt
                                                       else ""), tag + " %s" % life.get("serve_replies"))
        # ---- I5: some PIN among {file, default} unlocks the device
        if dev.wiped or dev.retries <= 0:
            bad("I5/device-wiped", tag)
        elif dev.pin not in candidates(w):
            bad("I5/no-recoverable-pin/%s" % (cause or "no-fault"),
                "%s: device PIN %r, file %r, default %r" % (tag, dev.pin, end_file, DEFAULT_PIN))
        history.append({"force": force, "device_on_new_pin": newpin, "start_unlocked_then_power_cycle":
                        serve_phase, "serve_replies": life.get("serve_replies"),
                        "fault": list(life["fault"]) if life["fault"] else None,
                        "power_cycle_after": cycle, "outcome": w.outcomes.get(proc),
                        "served": served, "acknowledged_new_pin": bool(new_acks),
                        "file_after": end_file.decode("latin-1") if end_file is not None else None})
        life_states.append((force, newpin, serve_phase, life["fault"][0] if life["fault"] else None,
                            _posclass(life["fault"]), w.outcomes.get(proc, "?").split(":")[0],
                            bool(new_acks)))
        if viol:
            break
        if cycle:
            if platform == "ledger":
                dev.mode = L.MODE_BOOTLOADER
                dev.away_until = None
                dev.pinbuf = bytearray(10)
                dev._reset_ops()
            else:
                dev.locked = True
    leaked = w.finish()
    for o in w.outcomes.values():
        if "SIM-HANG" in o:
            raise RuntimeError(o)
    faults = {}
    for h in history:
        if h["fault"]:
            key = h["fault"][0] + "." + (str(h["fault"][2]) if h["fault"][0] not in ("crash", "interrupt")
                                         else "seam")
            faults[key] = faults.get(key, 0) + 1
    return {"violations": viol, "digest": w.log.digest(),
            "state": (platform, init, tuple(life_states)),
            "nontrivial": len(dev.pins_seen) > 0, "faults": faults,
            "probes": {"pin_changes_acknowledged": len(dev.newpin_acks),
                       "entropy_rejected_candidates": digits_first if w.pinrandom.calls > 8 else 0,
                       "crashes": len(w.crashed), "lifetimes": len(history)},
            "sim_s": w.clock.elapsed,
            "sample": {"platform": platform, "initial_state": init, "history": history,
                       "device_pin_at_end": dev.pin.decode("latin-1"), "leaked_threads": leaked}}


def _posclass(f):
    if not f:
        return None
    if f[0] in ("crash", "interrupt"):
        return f[1] // 10
    return str(f[1])


ENUM_LABELS = ["platform", "initial-state", "lifetimes", "entropy.digits-first", "force-change",
               "new-pin-behaviour", "fault-kind", "fault-position"]


class _Enum:
    """Single-lifetime change scenarios (x power cycle + restart): every crash seam, every file
    operation x fault, every PIN exchange x link fault."""

    def __init__(self, tier):
        self.items = []
        nseams = 260 if tier == "thorough" else 200
        for plat in (0, 1):
            for init, force in ((0, 0), (1, 1)):
                for newpin in ((0,) if tier == "quick" else (0, 1, 2)):
                    head = [plat, init, 1, 0]       # 2 lifetimes, honest entropy
                    for seam in range(nseams):
                        if seam < 256:
                            self.items.append(head + [force, newpin, FK_CRASH, seam] + [0] * 8)
                            # ... and the operator's Ctrl-C at the same seam (draws that follow the
                            # position: power cycle, [Ledger: start unlocked], interrupt)
                            self.items.append(head + [force, newpin, FK_CRASH, seam] +
                                              ([0, 0, 1] if plat == 0 else [0, 1]) + [0] * 6)
                    for op in range(12):
                        for n in range(3):
                            self.items.append(head + [force, newpin, FK_FS, op * 8 + n] + [0] * 8)
                    nk = len(HID_KINDS) if plat == 0 else len(TCP_KINDS)
                    for ordinal in range(20 if plat == 0 else 3):
                        for kd in range(nk):
                            self.items.append(head + [force, newpin, FK_LINK, ordinal * 8 + kd] + [0] * 8)

    def __len__(self):
        return len(self.items)

    def __getitem__(self, i):
        return self.items[i]


_ENUM = {}


def ENUM(tier):
    if tier not in _ENUM:
        _ENUM[tier] = _Enum(tier)
    return _ENUM[tier]


def _m(owner_path, name, old, new, count=1):
    def apply():
        import importlib
        modname, _, clsname = owner_path.rpartition(".")
        try:
            owner = importlib.import_module(owner_path)
        except ImportError:
            owner = getattr(importlib.import_module(modname), clsname)
        return patch_function(owner, name, old, new, count)
    return apply


P = "ledger.protocol.HSM2ProtocolLedger"
F = "ledger.pin.FileBasedPin"
MUTANTS = {
    "commit-before-device-ack": _m(
        P, "_handle_bootloader", "self.pin.start_change()", "self.pin.start_change(); self.pin.commit_change(); "
        "self.pin._changing = True; self.pin._new_pin = self.pin._pin"),
    "no-abort-on-failure": _m(P, "_handle_bootloader", "self.pin.abort_change()",
                              "self.pin.commit_change()"),
    "refusal-treated-as-success": _m(
        P, "_handle_bootloader", "if not self.hsm2dongle.new_pin(self.pin.get_new_pin()):", "if False:"),
    "pin-validity-not-rechecked": _m("ledger.pin.BasePin", "generate_pin",
                                     "while pin is None or not cls.is_valid(pin.encode()):",
                                     "while pin is None:"),
    "carries-on-after-change": _m(P, "_handle_bootloader", "finally:", "except ZeroDivisionError:"),
    "sgx-zero-answer-is-success": _m("sgx.hsm2dongle.HSM2DongleSGX", "new_pin",
                                     "return response[2] == 1", "return True"),
    "commit-writes-old-pin": _m(F, "commit_change", "file.write(self._new_pin)",
                                "file.write(self._pin)"),
}

if __name__ == "__main__":
    import checks.c10 as _me
    batch.main(_me)
