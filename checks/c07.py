"""C07 - an SGX attestation is accepted only if the whole quote-to-root chain
verifies.

Pipeline simulation as C06 with the SGX party: the certificate is produced by
the real `adm_sgx attestation` from the quote envelope of a simulated enclave
whose Intel-like PKI (root, platform CA, PCK leaf) is generated per run; ONE
fault is applied (link / at rest / wrong root / dishonest issuer), and - the
genuinely simulated dimension - the verifier's CLOCK is placed before / at the
edges of / inside / after each certificate's validity window."""
import base64
import hashlib
import json

from sim import boot
boot.boot()

import ecdsa                                            # noqa: E402

from sim import batch                                   # noqa: E402
from sim.choices import Choices                         # noqa: E402
from sim.mutate import patch_function                   # noqa: E402
from refs import att_sgx as REF                         # noqa: E402
from refs import sgxpki                                 # noqa: E402
from checks import attcommon as A                       # noqa: E402
from checks.c06 import alter_bytes, flip                # noqa: E402

from admin.certificate import HSMCertificate, HSMCertificateV2, HSMCertificateV2ElementX509  # noqa: E402

PROPERTY = "C07"
LEVEL = "exploration"
RULE = ("one run = one version-2 certificate file, one root certificate and one clock position, judged "
        "by the real loader + validate_and_get_values and by the independent reference at the same "
        "simulated instant; artefact classes: gathered by the real adm_sgx attestation from a simulated "
        "enclave (QE auth data 0..1000 bytes, PEM chains of 2..3 certificates, P-256 / P-384 platform "
        "CA), with one enclave answer altered on the link, altered at rest (any byte of message / "
        "signature / key / auth data / custom data / X.509 DER, re-parenting, re-signing by another key), "
        "wrong root, dishonest issuer; host time zone UTC / -8 / -5 / +5:30 / +9 / +13 h; clock: inside all windows, 1 s before / exactly at / 1 s after "
        "each notBefore and notAfter, far past, far future, non-overlapping windows; elements named like the "
        "root of trust (stray copy / the certificate's own root under another verifier root); the same "
        "certificate object asked again 0..2 times under other roots and at other instants; non-trivial = a "
        "certificate file existed; distinct = (class, alteration, element, clock class, verdict)")
TIERS = {"quick": {"runs": 8000, "wall": 240}, "thorough": {"runs": 150000, "wall": 3000}}
MUTANT_RUNS = 700
MUTANT_WALL = 150
COMPONENTS = {
    "real": ["admin.certificate_v2 (elements, is_valid, get_pubkey, get_value)", "admin.certificate_v1 "
             "(loader, validate_and_get_values)", "sgx.envelope", "comm.cstruct", "cryptography (X.509 "
             "parsing and signature verification as used by the code)", "gathering: adm_sgx attestation, "
             "admin.sgx_attestation, ledger.hsm2dongle_cmds.powhsm_attestation, sgx.hsm2dongle, "
             "ledgerblue.commTCP"],
    "stub": ["enclave model + simulated Intel-like PKI (DER built by the harness, RFC 6979 signatures)",
             "TCP device link (alteration point)", "file system (alteration point)",
             "clock (admin.certificate_v2.datetime.now)"],
}
ASSUMPTIONS = [
    "the clock does not move during one validation (one instant per verdict)",
    "the reference shares the python-ecdsa package with the code under test for P-256 arithmetic and "
    "DER signature decoding; X.509 parsing, validity and structure offsets are independent",
    "targets other than the quote are not generated (only a quote can provide a value)",
]

CLOCKS = ["inside", "leaf.nb-1", "leaf.nb", "leaf.na", "leaf.na+1", "ca.nb-1", "ca.na+1",
          "root.nb-1", "root.na+1", "far-past", "far-future"]


def clock_for(pki, which):
    now = pki.now
    w = pki.windows
    table = {
        "inside": now, "leaf.nb-1": now + w["leaf"][0] - 1, "leaf.nb": now + w["leaf"][0],
        "leaf.na": now + w["leaf"][1], "leaf.na+1": now + w["leaf"][1] + 1,
        "ca.nb-1": now + w["ca"][0] - 1, "ca.na+1": now + w["ca"][1] + 1,
        "root.nb-1": now + w["root"][0] - 1, "root.na+1": now + w["root"][1] + 1,
        "far-past": 946684800.0, "far-future": 4102444800.0,
    }
    return float(int(table[which]))


def _displaced(ch, other, genuine):
    """Report data (64 bytes) that does not BEGIN with the digest it has to commit to: another digest
    altogether, or the right digest somewhere else in the field (second half, a few bytes in) behind
    other bytes - genuinely signed all the same."""
    how = ch.draw(4, "dis.binding.shape")
    if how == 0:
        return other + b"\x00" * 32
    if how == 1:
        return other + genuine
    off = ch.pick([1, 7, 16, 31], "dis.binding.offset")
    pad = (other * 2)[:off]
    if pad[:1] == genuine[:1]:
        pad = bytes([pad[0] ^ 0xFF]) + pad[1:]
    return (pad + genuine + other)[:64]


def dishonest(ch, now):
    """A chain built by an issuer that holds all keys: depth 1..3 of X.509, then key, then quote,
    with one optional deviation that keeps every signature valid for *some* key."""
    seed = ch.bytes(4, "dis.seed")
    depth = 1 + ch.draw(3, "dis.depth")
    dev = ch.weighted([(3, "none"), (1, "quote-binding"), (1, "key-binding"), (1, "key-by-ca"),
                       (1, "expired-mid"), (1, "p384-leaf"), (1, "quote-by-leaf")], "dis.deviation")
    day = 86400
    sks = [sgxpki.sk_from(b"d%d" % i + seed, sgxpki.P384 if (dev == "p384-leaf" and i == depth - 1)
                          else sgxpki.P256) for i in range(depth)]
    root_sk = sks[0]
    root_der = sgxpki.make_cert("R", root_sk.verifying_key, "R", root_sk, now - 100 * day,
                                now + 100 * day)
    names = ["platform_ca", "quoting_enclave", "extra"][:depth - 1]
    elems = []
    prev_name, prev_sk = "sgx_root", root_sk
    for i in range(1, depth):
        nb, na = now - 50 * day, now + 50 * day
        if dev == "expired-mid" and i == 1:
            nb, na = now - 50 * day, now - 1
        der = sgxpki.make_cert("C%d" % i, sks[i].verifying_key, "C%d" % (i - 1), prev_sk, nb, na,
                               serial=i + 1, sha384=(prev_sk.curve == sgxpki.P384))
        elems.append({"name": names[i - 1], "type": "x509_pem",
                      "message": base64.b64encode(der).decode(), "signed_by": prev_name})
        prev_name, prev_sk = names[i - 1], sks[i]
    att_sk = sgxpki.sk_from(b"att" + seed)
    auth = ch.bytes(ch.pick([0, 16], "dis.auth"), "dis.authb") or b"\x00"
    custom = b"POWHSM:5.4::sgx" + ch.bytes(20, "dis.custom")
    krd = hashlib.sha256(att_sk.verifying_key.to_string() + auth).digest()
    krd_field = krd + b"\x00" * 32
    if dev == "key-binding":
        krd = hashlib.sha256(b"other").digest()
        krd_field = _displaced(ch, krd, krd_field[:32])
    qe_rb = sgxpki.report_body(krd_field)
    key_signer = prev_sk
    key_parent = prev_name
    if dev == "key-by-ca" and depth >= 2:
        key_signer, key_parent = sks[depth - 2], (names[depth - 3] if depth >= 3 else "sgx_root")
    if key_signer.curve != sgxpki.P256 and ch.draw(2, "dis.p384-genuinely-signs") == 0:
        qe_sig = sgxpki.sign_der(sgxpki.sk_from(b"zz"), qe_rb)
    else:
        # (a certifier on another curve may well have signed the report body for real: it is still
        # not the P-256 key the property asks for)
        qe_sig = sgxpki.sign_der(key_signer, qe_rb)
    qrd = hashlib.sha256(custom).digest()
    qrd_field = qrd + b"\x00" * 32
    if dev == "quote-binding":
        qrd = hashlib.sha256(custom + b"x").digest()
        qrd_field = _displaced(ch, qrd, qrd_field[:32])
    quote = b"\x03\x00\x02\x00" + b"\x00" * 44 + sgxpki.report_body(qrd_field)
    q_signer = prev_sk if (dev == "quote-by-leaf" and prev_sk.curve == sgxpki.P256) else att_sk
    q_sig = sgxpki.sign_der(q_signer, quote)
    elems.append({"name": "attestation", "type": "sgx_attestation_key", "message": qe_rb.hex(),
                  "key": (b"\x04" + att_sk.verifying_key.to_string()).hex(), "auth_data": auth.hex(),
                  "signature": qe_sig.hex(), "signed_by": key_parent})
    elems.append({"name": "quote", "type": "sgx_quote", "message": quote.hex(),
                  "custom_data": custom.hex(), "signature": q_sig.hex(), "signed_by": "attestation"})
    targets = ["quote"]
    if ch.draw(3, "dis.second-branch") == 1:
        # a second attested quote under the same parent (own attestation key), healthy or failing at
        # its non-leaf element; each target is judged along its own path
        att_b = sgxpki.sk_from(b"attb" + seed)
        krd_b = hashlib.sha256(att_b.verifying_key.to_string() + auth).digest()
        rb_b = sgxpki.report_body(krd_b + b"\x00" * 32)
        bad_b = ch.draw(2, "dis.second-branch.bad") == 1
        signer_b = sgxpki.sk_from(b"zzb") if (bad_b or key_signer.curve != sgxpki.P256) else key_signer
        quote_b = b"\x03\x00\x02\x00" + b"\x00" * 44 + sgxpki.report_body(
            hashlib.sha256(custom + b"b").digest() + b"\x00" * 32)
        elems.append({"name": "attestation_b", "type": "sgx_attestation_key", "message": rb_b.hex(),
                      "key": (b"\x04" + att_b.verifying_key.to_string()).hex(), "auth_data": auth.hex(),
                      "signature": sgxpki.sign_der(signer_b, rb_b).hex(), "signed_by": key_parent})
        elems.append({"name": "quote_b", "type": "sgx_quote", "message": quote_b.hex(),
                      "custom_data": (custom + b"b").hex(),
                      "signature": sgxpki.sign_der(att_b, quote_b).hex(), "signed_by": "attestation_b"})
        targets = ch.pick([["quote_b", "quote"], ["quote", "quote_b"]], "dis.targets")
        dev = dev + ("+bad-second-branch" if bad_b else "+second-branch")
    if ch.draw(3, "dis.ancestor-target") == 1:
        # an ancestor of the quote is a target too, listed before or after it: every target is judged
        # along its whole path, whatever was found for another target
        anc = ch.pick([e["name"] for e in elems if e["name"] not in ("quote", "quote_b")], "dis.ancestor")
        targets = [anc] + targets if ch.draw(2, "dis.ancestor-first") == 0 else targets + [anc]
        dev = dev + "+ancestor-target"
    if ch.draw(6, "dis.odd-name") == 1:
        # element names are whatever the file says (only the root's is reserved): an empty one is a name
        old = ch.pick([e["name"] for e in elems], "dis.odd-name.which")
        new = ch.pick(["", " ", "0"], "dis.odd-name.new")
        if not any(e["name"] == new for e in elems):
            for e in elems:
                if e["name"] == old:
                    e["name"] = new
                if e["signed_by"] == old:
                    e["signed_by"] = new
            targets = [new if t == old else t for t in targets]
            dev = dev + "+odd-name"
    elems = ch.shuffle(elems, "dis.order")
    return {"version": 2, "targets": targets, "elements": elems}, root_der, dev


def run_one(ch, cfg):
    cls = ch.weighted([(2, "genuine"), (2, "link"), (4, "at-rest"), (1, "wrong-root"),
                       (3, "dishonest")], "artefact-class")
    clock_cls = ch.weighted([(4, "inside")] + [(1, c) for c in CLOCKS[1:]], "clock")
    # the host's local time zone (seconds east of UTC): validity periods are instants, not wall-clock
    # readings, so it must not matter
    tz_offset = ch.pick([0, 0, -5 * 3600, 9 * 3600, 13 * 3600, -8 * 3600, 19800], "host-time-zone")
    kind = cls
    elem_name = None
    viol = []
    windows = None
    if cls == "dishonest":
        w, dev, info = A.sgx_world(ch, qe_auth=b"", include_root=True)
        doc, root_der, kind = dishonest(ch, w.clock.now)
        kind = "dishonest:" + kind
        w.fs.put(A.SGX_ATT, json.dumps(doc).encode())
        pki = info["pki"]
        when = w.clock.now if clock_cls == "inside" else clock_for(pki, clock_cls)
    else:
        if ch.draw(8, "windows.disjoint") == 1:
            day = 86400.0
            windows = {"leaf": (-10 * day, -5 * day), "ca": (-3 * day, 100 * day)}
        ca_curve = sgxpki.P384 if ch.draw(6, "ca.p384") == 1 else None
        w, dev, info = A.sgx_world(ch, windows=windows, ca_curve=ca_curve)
        pki = info["pki"]
        if cls == "link":
            target = ch.draw(60, "link.exchange")
            how = ch.draw(1 << 30, "link.alter-seed")

            def fault_fn(i, apdu, target=target):
                if i == target:
                    sub = Choices(seed=how)
                    return ("alter", lambda b: alter_bytes(b, sub, "link"))
                return None
            w.link.fault_fn = fault_fn
        st, out = A.sgx_attestation(w, dev, ch.bytes(32, "ud").hex())
        w.link.fault_fn = None
        if st != 0:
            if cls == "genuine":
                viol.append(("gather/genuine-enclave-failed", "attestation exit %s: %s"
                             % (st, out[-300:])))
            w.entropy_on = False
            return _res(viol, w, (cls, "gathering-failed"), False,
                        {"gathering_failed": 1, "class." + cls: 1}, {"class": cls, "exit": st})
        root_der = pki.root_der
        doc = A.load_json(w, A.SGX_ATT)
        # history dimension: the same process first validates the genuine certificate (a verifier
        # that is used more than once must judge every artefact on its own)
        if ch.draw(2, "validate-genuine-first") == 0:
            try:
                w.activate()
                HSMCertificate.from_jsonfile(A.SGX_ATT).validate_and_get_values(
                    HSMCertificateV2ElementX509({"name": "sgx_root", "signed_by": "sgx_root",
                                                 "message": base64.b64encode(root_der).decode()}))
            except Exception:
                pass
        if cls == "at-rest":
            kind = ch.pick(["bytes", "bytes", "bytes", "re-parent", "re-sign", "swap-x509",
                            "root-named-element"], "rest.kind")
            elems = doc["elements"]
            e = elems[ch.draw(len(elems), "rest.elem")]
            elem_name = e["name"]
            if kind == "bytes":
                fields = [f for f in ("message", "signature", "key", "auth_data", "custom_data")
                          if f in e]
                f = fields[ch.draw(len(fields), "rest.field")]
                kind = "bytes:" + f
                if e.get("type") == "x509_pem" and f == "message":
                    raw = base64.b64decode(e["message"])
                    e["message"] = base64.b64encode(alter_bytes(raw, ch, "rest")).decode()
                else:
                    e[f] = alter_bytes(bytes.fromhex(e[f]), ch, "rest").hex() or "00"
            elif kind == "root-named-element":
                # a stray element carrying the reserved name of the root of trust (a copy of one of
                # the chain's certificates): the chain is still judged against the verifier's root
                xs = [x for x in elems if x.get("type") == "x509_pem"]
                src = xs[ch.draw(len(xs), "rootnamed.src")]
                twin = dict(src)
                twin["name"] = "sgx_root"
                twin["signed_by"] = ch.pick(["sgx_root", src["signed_by"]], "rootnamed.parent")
                elems.insert(ch.draw(len(elems) + 1, "rootnamed.pos"), twin)
                elem_name = "sgx_root"
            elif kind == "re-parent":
                e["signed_by"] = ch.pick(["sgx_root", "platform_ca", "quoting_enclave", "attestation"],
                                         "rest.parent")
            elif kind == "re-sign":
                stranger = sgxpki.sk_from(b"stranger" + ch.bytes(4, "rest.k"))
                if e.get("type") == "x509_pem":
                    e["message"] = base64.b64encode(sgxpki.make_cert(
                        "X", stranger.verifying_key, "Y", stranger, w.clock.now - 10,
                        w.clock.now + 10)).decode()
                else:
                    e["signature"] = sgxpki.sign_der(stranger, bytes.fromhex(e["message"])).hex()
            else:
                xs = [x for x in elems if x.get("type") == "x509_pem"]
                if len(xs) >= 2:
                    xs[0]["message"], xs[1]["message"] = xs[1]["message"], xs[0]["message"]
            w.fs.put(A.SGX_ATT, json.dumps(doc).encode())
        elif cls == "wrong-root":
            kind = ch.pick(["other-root", "corrupted", "platform-ca-as-root", "expired-root",
                            "other-root-own-root-in-certificate"], "root.kind")
            if kind in ("other-root", "other-root-own-root-in-certificate"):
                o = sgxpki.Pki(b"other" + ch.bytes(4, "root.k"), w.clock.now)
                root_der = o.root_der
                if kind != "other-root":
                    # the certificate brings its own root along, under the reserved name
                    doc["elements"].insert(ch.draw(len(doc["elements"]) + 1, "ownroot.pos"), {
                        "name": "sgx_root", "type": "x509_pem", "signed_by": "sgx_root",
                        "message": base64.b64encode(pki.root_der).decode()})
                    w.fs.put(A.SGX_ATT, json.dumps(doc).encode())
            elif kind == "corrupted":
                root_der = flip(root_der, ch, "root")
            elif kind == "platform-ca-as-root":
                root_der = pki.ca_der
            else:
                root_der = sgxpki.make_cert("Sim SGX Root CA", pki.root_sk.verifying_key,
                                            "Sim SGX Root CA", pki.root_sk, w.clock.now - 1000,
                                            w.clock.now - 10)
        when = clock_for(pki, clock_cls)
    w.entropy_on = False
    w.activate()
    w.sim_elapsed = w.clock.elapsed
    w.clock.now = when
    w.tz_offset = tz_offset
    # ---- the real code
    real = None
    real_err = None
    try:
        cert = HSMCertificate.from_jsonfile(A.SGX_ATT)
        try:
            rootel = HSMCertificateV2ElementX509({
                "name": "sgx_root", "message": base64.b64encode(root_der).decode(),
                "signed_by": "sgx_root"})
        except Exception:
            rootel = None
        if rootel is None or not isinstance(cert, HSMCertificateV2):
            real = "unusable"
        else:
            real = cert.validate_and_get_values(rootel)
    except Exception as e:
        real_err = "%s: %s" % (type(e).__name__, str(e)[:100])
    # ---- the reference at the same instant
    stored = A.load_json(w, A.SGX_ATT)
    rc = REF.load(stored)
    ref = None if rc is None else REF.validate(rc, root_der, when)
    if real_err and real_err.startswith("NotImplementedError") and isinstance(ref, dict) and any(
            v[0] and v[1] is None for v in ref.values()):
        # a target that verifies but is not a quote cannot provide a value: the implementation
        # refuses the whole call; the property speaks of quote targets only
        w.entropy_on = False
        return _res(viol, w, (cls, kind, "non-quote-target-valid"), False, {"non_quote_target_valid": 1},
                    {"class": cls, "alteration": kind})
    desc = "class %s/%s element %s clock %s: real %s%s, reference %s" % (
        cls, kind, elem_name, clock_cls, _norm(real), (" (" + real_err + ")") if real_err else "",
        _norm(ref))
    rn, fn = _norm(real), _norm(ref)
    if (real is None) != (ref is None):
        viol.append(("load/disagreement:%s" % kind.split(":")[0], desc))
    elif real is not None and rn != fn:
        accepts = isinstance(rn, dict) and isinstance(fn, dict) and any(
            rn[t][0] and not fn.get(t, (False,))[0] for t in rn)
        # corrupted X.509 DER: the library under the code may refuse to parse what the reference's
        # small DER reader still reads; only the accepting direction is decidable
        der_corruption = kind in ("corrupted", "link") or (kind == "bytes:message" and any(
            x.get("name") == elem_name and x.get("type") == "x509_pem"
            for x in (stored or {}).get("elements", [])))
        if der_corruption and not accepts:
            pass
        else:
            viol.append(("verdict/%s:%s" % ("accepted-invalid" if accepts else "mismatch",
                                            kind.split(":")[0]), desc))
    # ---- the same certificate object asked again, under another root or at another instant: the
    # verdict is a function of (certificate, root, instant), whatever the object was asked before
    if isinstance(rn, dict) and isinstance(fn, dict) and rn == fn and not viol:
        for j in range(ch.draw(3, "ask-again")):
            rk = ch.pick(["other-root", "same", "genuine-root"], "again.root")
            ck = ch.pick(["same", "far-future", "far-past", "now"], "again.clock")
            r2 = {"other-root": sgxpki.Pki(b"again" + bytes([j]), w.clock.now).root_der,
                  "same": root_der, "genuine-root": pki.root_der}[rk]
            when2 = {"same": when, "far-future": when + 400 * 365 * 86400.0,
                     "far-past": when - 60 * 365 * 86400.0, "now": w.clock.start}[ck]
            w.clock.now = when2
            try:
                real2 = _norm(cert.validate_and_get_values(HSMCertificateV2ElementX509({
                    "name": "sgx_root", "message": base64.b64encode(r2).decode(),
                    "signed_by": "sgx_root"})))
            except NotImplementedError:
                break             # a non-quote target became valid under this root / instant: see above
            except Exception as e:
                real2 = "%s: %s" % (type(e).__name__, str(e)[:80])
            ref2 = _norm(REF.validate(rc, r2, when2))
            accepts2 = isinstance(real2, dict) and isinstance(ref2, dict) and any(
                real2[t][0] and not ref2.get(t, (False,))[0] for t in real2)
            der2 = kind in ("corrupted", "link") or (kind == "bytes:message" and any(
                x.get("name") == elem_name and x.get("type") == "x509_pem"
                for x in (stored or {}).get("elements", [])))
            if real2 != ref2 and (accepts2 or not der2):
                viol.append(("history/same-object-asked-again",
                             "%s; asked again (call %d) under root %s at clock %s: real %s, reference %s"
                             % (desc, j + 2, rk, ck, _show(real2) if isinstance(real2, dict) else real2,
                                _show(ref2) if isinstance(ref2, dict) else ref2)))
                break
    # ---- an element replaced on the live object: the next verdict is about the certificate as it is now
    if isinstance(rn, dict) and isinstance(fn, dict) and rn == fn and not viol and \
            isinstance(stored, dict) and ch.draw(3, "replace-element") == 1:
        import copy as _copy
        from admin.certificate_v2 import HSMCertificateV2Element
        doc2 = _copy.deepcopy(stored)
        cands = [x for x in doc2["elements"] if x.get("type") in ("sgx_quote", "sgx_attestation_key")]
        if cands:
            e2 = cands[ch.draw(len(cands), "replace.which")]
            f2 = ch.pick(["signature", "message"], "replace.field")
            e2[f2] = flip(bytes.fromhex(e2[f2]), ch, "replace").hex()
            try:
                w.clock.now = when
                cert.add_element(HSMCertificateV2Element.from_dict(e2))
                real3 = _norm(cert.validate_and_get_values(rootel))
                rc3 = REF.load(doc2)
                ref3 = _norm(REF.validate(rc3, root_der, when)) if rc3 is not None else None
                if ref3 is not None and real3 != ref3:
                    viol.append(("history/element-replaced",
                                 "%s; element %s (%s) replaced on the same object: real %s, reference %s" % (
                                     desc, e2["name"], f2, _show(real3) if isinstance(real3, dict) else real3,
                                     _show(ref3) if isinstance(ref3, dict) else ref3)))
            except ValueError:
                pass
    if cls == "genuine" and clock_cls == "inside" and windows is None and \
            isinstance(rn, dict) and not rn.get("quote", (False,))[0]:
        viol.append(("verdict/genuine-rejected", desc))
    vm = tuple(sorted((t, v[0], v[1] if not v[0] else "ok") for t, v in rn.items())) \
        if isinstance(rn, dict) else str(rn)
    return _res(viol, w, (cls, kind, elem_name, clock_cls, vm), True,
                {"class." + cls: 1, "clock." + clock_cls: 1,
                 "valid": int(isinstance(rn, dict) and all(v[0] for v in rn.values())),
                 "invalid": int(isinstance(rn, dict) and any(not v[0] for v in rn.values()))},
                {"class": cls, "alteration": kind, "element": elem_name, "clock": clock_cls,
                 "instant": when, "real_verdicts": _show(rn), "reference_verdicts": _show(fn)})


def _norm(r):
    """Bring both result maps to {target: (True, message_hex, quote_raw_hex) | (False, name)}."""
    if not isinstance(r, dict):
        return r
    out = {}
    for t, v in r.items():
        if v[0]:
            val = v[1]
            if isinstance(val, dict) and "sgx_quote" in val:
                out[t] = (True, val["message"], val["sgx_quote"].get_raw_data().hex())
            elif isinstance(val, dict):
                out[t] = (True, val["message"], val["quote"][:432].hex())
            else:
                out[t] = (True, None, None)
        else:
            out[t] = (False, v[1])
    return out


def _show(r):
    if isinstance(r, dict):
        return {t: ((True, (v[1] or "")[:24] + "...") if v[0] else list(v)) for t, v in r.items()}
    return r


def _res(viol, w, state, nontrivial, probes, sample):
    return {"violations": viol, "digest": w.log.digest(), "state": state, "nontrivial": nontrivial,
            "faults": dict(w.link.stats.faults), "probes": probes, "sim_s": getattr(w, "sim_elapsed", w.clock.elapsed), "sample": sample}


def _m(owner_path, name, old, new, count=1):
    def apply():
        import importlib
        modname, _, clsname = owner_path.rpartition(".")
        try:
            owner = importlib.import_module(owner_path)
        except ImportError:
            owner = getattr(importlib.import_module(modname), clsname)
        return patch_function(owner, name, old, new, count)
    return apply


X = "admin.certificate_v2.HSMCertificateV2ElementX509"
K = "admin.certificate_v2.HSMCertificateV2ElementSGXAttestationKey"
Q = "admin.certificate_v2.HSMCertificateV2ElementSGXQuote"
MUTANTS = {
    "verdicts-remembered-on-the-object": _m(
        "admin.certificate_v1.HSMCertificate", "validate_and_get_values",
        "if not current.is_valid(current_certifier):",
        "if not (current.name in self.__dict__.setdefault('_v', set()) or "
        "(current.is_valid(current_certifier) and not self._v.add(current.name))):"),
    "validity-not-checked": _m(
        X, "is_valid",
        "if subject.not_valid_before_utc > now or subject.not_valid_after_utc < now:", "if False:"),
    "not-after-unchecked": _m(
        X, "is_valid",
        "if subject.not_valid_before_utc > now or subject.not_valid_after_utc < now:",
        "if subject.not_valid_before_utc > now:"),
    "validity-boundary-exclusive": _m(
        X, "is_valid",
        "if subject.not_valid_before_utc > now or subject.not_valid_after_utc < now:",
        "if subject.not_valid_before_utc >= now or subject.not_valid_after_utc <= now:"),
    "issuer-validity-checked-instead": _m(
        X, "is_valid",
        "if subject.not_valid_before_utc > now or subject.not_valid_after_utc < now:",
        "if issuer.not_valid_before_utc > now or issuer.not_valid_after_utc < now:"),
    "key-binding-unchecked": _m(
        K, "is_valid", "if expected != self.message.report_data.field[:len(expected)]:", "if False:"),
    "key-binding-without-auth-data": _m(
        K, "is_valid", "expected = hashlib.sha256(self.key.to_string() + self._auth_data).digest()",
        "expected = hashlib.sha256(self.key.to_string()).digest()"),
    "quote-binding-unchecked": _m(
        Q, "is_valid", "if expected != self.message.report_body.report_data.field[:len(expected)]:",
        "if False:"),
    "quote-signature-unchecked": _m(
        Q, "is_valid", "return certifier.get_pubkey().verify_digest(",
        "return True or certifier.get_pubkey().verify_digest("),
    "x509-signature-unchecked": _m(X, "is_valid", "issuer.public_key().verify(",
                                   "(lambda *a: None)("),
    "custom-data-not-reported-from-signed": _m(
        Q, "get_value", '"message": self.custom_data,', '"message": self.custom_data[:-2] + "00",'),
}

if __name__ == "__main__":
    import checks.c07 as _me
    batch.main(_me)
