"""C03 - no client request can take the manager down or go unanswered.

Full-server simulation: the real TCPServer.run / socketserver loop / request
handler / shutdown helper thread run as tasks under the seeded scheduler; a
history of hostile request lines is sent over simulated connections, each
followed by a well-formed probe on a new connection."""
import copy
import json
import re

from sim import boot
boot.boot()

from sim import batch                        # noqa: E402
from sim.serverworld import ServerWorld, StepCap   # noqa: E402
from sim.mutate import patch_function        # noqa: E402
from refs import rsk                         # noqa: E402
from checks import c02                       # noqa: E402
from checks.c01 import PATHS                 # noqa: E402

PROPERTY = "C03"
LEVEL = "exploration"
RULE = ("one run = one manager lifetime (real TCPServer.run + socketserver loop under the seeded "
        "scheduler) receiving a history of 1..N hostile request lines over simulated TCP connections "
        "(arbitrary bytes, invalid UTF-8, hostile JSON shapes, requests of every command with hostile "
        "field values, hostile block / brother / coinbase shapes, a quarter of the later lines repeating "
        "the previous one; sent in fragments / half-closed / reset before the reply / reset before a whole "
        "line arrived / held open after the reply / two at once), each "
        "followed by a well-formed probe on a new connection; non-trivial = at least one hostile line "
        "was parsed as JSON and dispatched; distinct = tuple (mode, sorted kinds of lines in the history, "
        "client behaviours used)")
TIERS = {"quick": {"runs": 8000, "wall": 240}, "thorough": {"runs": 300000, "wall": 3000}}
MUTANT_RUNS = 6000
MUTANT_WALL = 150
WORKERS = 24      # latency-bound (thread hand-offs), not CPU-bound
COMPONENTS = {
    "real": ["comm.server (TCPServer.run, _TCPServerRequestHandler, _RequestHandler, shutdown thread)",
             "socketserver (serve_forever, _handle_request_noblock, StreamRequestHandler, shutdown)",
             "json", "comm.protocol", "comm.protocol_v1", "ledger.protocol", "ledger.hsm2dongle",
             "ledger.block_utils", "comm.bitcoin", "rlp", "ledgerblue HID transport",
             "logging (half of the runs: the deployed default configuration - real StreamHandler, every "
             "record formatted, output discarded; the other half: disabled)"],
    "stub": ["client sockets / listener / selector (SimNet)", "threading primitives (baton scheduler)",
             "hid link", "benign device model (record-only)", "bitcoin.core stand-in", "clock"],
}
ASSUMPTIONS = [
    "the device keeps to its protocol and accepts whatever it is sent (record-only model)",
    "a client that never terminates its line and keeps the connection open blocks the single-threaded "
    "server: observed, not counted (the property speaks of a client that sends a request line)",
]


def SIM_CFG(tier):
    if tier == "thorough":
        return {"max_lines": 12, "deep": 100000, "digits": 10000, "bigstr": 300000}
    return {"max_lines": 5, "deep": 100000, "digits": 5000, "bigstr": 140000}


HOSTILE_VALUES = [
    ["x"], {"a": 1}, [[]], -1, 2 ** 32, 2 ** 64, 2 ** 70, 1e308, float("inf"), float("nan"),
    "", "\u0000", "m/" + "0/" * 300, None, True,
]


def gen_line(ch, cfg, v1):
    """-> (bytes, kind)"""
    k = ch.weighted([(6, "mutated-request"), (2, "hostile-field"), (1, "bytes"), (1, "bad-utf8"),
                     (2, "deep-nesting"), (1, "huge-int"), (1, "json-shape"), (2, "oversized"),
                     (1, "bad-blocks")], "line.kind")
    cmds = ["version", "sign", "getPubKey"] if v1 else \
        ["version", "sign", "getPubKey", "advanceBlockchain", "resetAdvanceBlockchain",
         "blockchainState", "updateAncestorBlock", "blockchainParameters", "signerHeartbeat",
         "uiHeartbeat"]
    ver = 1 if v1 else 5
    if k == "bytes":
        n = ch.pick([0, 1, 7, 100], "bytes.len")
        b = ch.bytes(n, "bytes").replace(b"\n", b" ")
        return b, k
    if k == "bad-utf8":
        return ch.pick([b"\xff\xfe{}", b'{"command": "\xc3\x28"}', b"\x80", b'{"a":"\xed\xa0\x80"}'],
                       "badutf8"), k
    if k == "deep-nesting":
        # (far beyond what the parser takes, around the interpreter's limits, and in the narrow band
        # where the parser still accepts what can no longer be rendered)
        n = ch.pick([cfg["deep"], 2000, 1000, 990, 1400 + ch.draw(130, "deep.near-limit"),
                     1484 + ch.draw(16, "deep.nearer"), 1484 + ch.draw(16, "deep.nearer2")], "deep.n")
        shape = ch.draw(3, "deep.shape")
        if shape == 0:
            return b"[" * n, k
        if shape == 1:
            return b"[" * n + b"]" * n, k
        return b'{"command":' * 1 + b'{"a":' * n + b"1" + b"}" * n + b', "version":%d}' % ver, k
    if k == "huge-int":
        digits = "9" * ch.pick([cfg["digits"], 4301, 4300, 400], "digits")
        where = ch.draw(4, "hugeint.where")
        if where == 0:
            return ('{"command":"version","version":%s}' % digits).encode(), k
        if where == 1:
            return digits.encode(), k
        if where == 2:
            return ('{"command":"getPubKey","keyId":%s,"version":%d}' % (digits, ver)).encode(), k
        return ('{"command":"sign","keyId":"%s","message":{"tx":"00","input":-%s,'
                '"sighashComputationMode":"legacy"},"auth":{"receipt":"00","receipt_merkle_proof":'
                '["00"]},"version":%d}' % (PATHS[0], digits, ver)).encode(), k
    if k == "json-shape":
        return ch.pick([b"NaN", b"Infinity", b"-Infinity", b'{"command":"version","command":5}',
                        b'{"command":"version","version":NaN}', b"[]", b"{}", b'""', b"null",
                        b'{"command":null}', b'{"command":{"a":1},"version":5}',
                        b'{"command":["x"],"version":5}', b'{"command":["version"]}',
                        b'\xef\xbb\xbf{"command":"version"}', b"  \t ", b"{",
                        b'{"command":"version","version":1e400}'], "jsonshape"), k
    cmd = ch.pick(cmds + (["sign"] * 4 + ["advanceBlockchain"] if not v1 else []), "cmd")
    doc = c02.base_request(ch, cmd, v1)
    if k == "mutated-request":
        for _ in range(1 + ch.draw(3, "nmut")):
            doc, _kind = c02.mutate(ch, doc)
    elif k == "hostile-field":
        if isinstance(doc, dict):
            ps = c02.paths_of(doc)
            for _ in range(1 + ch.draw(2, "nhostile")):
                if not ps:
                    break
                path = ps[ch.draw(len(ps), "hostile.path")]
                try:
                    parent = c02.get_parent(doc, path)
                    parent[path[-1]] = copy.deepcopy(
                        HOSTILE_VALUES[ch.draw(len(HOSTILE_VALUES), "hostile.value")])
                except (KeyError, IndexError, TypeError):
                    pass
    elif k == "oversized" and not v1:
        which = ch.draw(6, "oversized.which")
        if which == 0:      # witness script over 64 KiB
            doc = c02.base_request(_Fixed(ch, {"kind": 2}), "sign", False)
            doc["message"]["witnessScript"] = "ab" * ch.pick([65536, 65535 - 11, 70000], "ws.n")
        elif which == 1:    # 256 merkle nodes / 256-byte node
            doc = c02.base_request(_Fixed(ch, {"kind": 1}), "sign", False)
            if ch.draw(2, "proof.which") == 0:
                doc["auth"]["receipt_merkle_proof"] = ["00"] * 256
            else:
                doc["auth"]["receipt_merkle_proof"] = ["00" * 256]
        elif which == 2:    # more than 255 brothers
            hdr = rsk.gen_header(ch, nfields=19, max_cb=100)["raw"].hex()
            doc = {"command": "advanceBlockchain", "blocks": [hdr],
                   "brothers": [[hdr[:-2] + "%02x" % (i % 256) for i in range(
                       ch.pick([256, 300], "nbro"))]], "version": 5}
        elif which == 3:    # header whose merge-mining payload exceeds 64 KiB
            h = rsk.gen_header(ch, nfields=19, max_cb=100)
            h["fields"][12] = b"\x55" * ch.pick([70000, 65536], "extra.n")
            raw, _ = rsk.rlp_list(h["fields"])
            doc = {"command": ch.pick(["advanceBlockchain", "updateAncestorBlock"], "ovs.cmd"),
                   "blocks": [raw.hex()], "brothers": [[]], "version": 5}
        elif which == 4:    # huge string
            doc = {"command": "getPubKey", "keyId": "m/" + "1/" * (cfg["bigstr"] // 2), "version": 5}
        else:               # huge receipt
            doc = c02.base_request(_Fixed(ch, {"kind": 1}), "sign", False)
            doc["auth"]["receipt"] = "00" * ch.pick([70000, 300000], "receipt.n")
    elif k == "bad-blocks" and not v1:
        good = rsk.gen_header(ch, nfields=19, max_cb=100)["raw"].hex()
        bad = ch.pick(["aabbcc", "c0", "c3010203", "83616263", "f8", "00", rsk.rlp_list(
            [b"\x01"] * 19)[0].hex(), rsk.rlp_list([b"\x01"] * 21)[0].hex(),
            rsk.rlp_list([b"\x01"] * 16)[0].hex(), "zz", good + "00", good[:-4]], "badblock")
        if ch.draw(3, "badblock.nested") == 1:
            # well-formed RLP, hostile shape: a header field that is itself a (deeply nested) list
            h = rsk.gen_header(ch, nfields=ch.pick([19, 20], "nested.nf"), max_cb=100)
            enc = [rsk.rlp_bytes(f) for f in h["fields"]]
            depth = ch.pick([1, 2, 300, 600, 990, 2000], "nested.depth")
            nested = b"\xc0"
            for _ in range(depth - 1):
                nested = rsk.rlp_list_of_encoded([nested])[0]
            which = ch.pick([len(enc) - 1, 0, 6, len(enc) - 3, len(enc) - 2], "nested.field")
            enc[which] = nested
            bad = rsk.rlp_list_of_encoded(enc)[0].hex()
        elif ch.draw(3, "badblock.coinbase") == 1:
            # well-formed header whose coinbase transaction field is hostile: the first 8 bytes are
            # read as the byte counter of a SHA-256 midstate, the next 32 as the midstate
            h = rsk.gen_header(ch, nfields=ch.pick([19, 20], "cb.nf"), max_cb=100)
            counter = ch.pick([b"\xff" * 8, b"\x20" + b"\x00" * 7, b"\x1f" + b"\xff" * 7,
                               b"\x80" + b"\x00" * 7, b"\x00" * 8, b"\x00" * 7 + b"\x01",
                               ch.bytes(8, "cb.counter")], "cb.counter.kind")
            tail = ch.bytes(ch.pick([32, 33, 31, 0, 64, 95, 96, 200], "cb.tail.n"), "cb.tail")
            h["fields"][-1] = counter + tail
            bad = rsk.rlp_list(h["fields"])[0].hex()
        place = ch.draw(4, "badblock.place")
        if place == 0:
            doc = {"command": "advanceBlockchain", "blocks": [bad], "brothers": [[]], "version": 5}
        elif place == 1:
            doc = {"command": "advanceBlockchain", "blocks": [good], "brothers": [[bad]], "version": 5}
        elif place == 2:
            doc = {"command": "updateAncestorBlock", "blocks": [good, bad], "version": 5}
        else:
            doc = {"command": "advanceBlockchain", "blocks": [good, good],
                   "brothers": [[good], [bad, good]], "version": 5}
    try:
        line = json.dumps(doc).encode()
    except (TypeError, ValueError):
        line = b"null"
    return line, k


class _Fixed:
    """Choices proxy forcing some draws (used to pick a sub-format)."""

    def __init__(self, ch, forced):
        self._ch = ch
        self._forced = forced

    def pick(self, seq, label=""):
        if label in self._forced:
            return seq[self._forced[label]]
        return self._ch.pick(seq, label)

    def __getattr__(self, name):
        return getattr(self._ch, name)


def norm(msg):
    msg = re.sub(r"0x[0-9a-fA-F]+|[0-9a-fA-F]{8,}", "H", str(msg))
    msg = re.sub(r"\d+", "N", msg)
    return msg[:90]


def check_reply(data, eof):
    """-> (ok, reason)"""
    if not data.endswith(b"\n") or data.count(b"\n") != 1:
        return False, "expected exactly one line, got %r" % (data[:120],)
    try:
        obj = json.loads(data.decode())
    except Exception as e:
        return False, "reply is not JSON: %r (%s)" % (data[:120], e)
    if not isinstance(obj, dict) or type(obj.get("errorcode")) is not int:
        return False, "reply has no integer errorcode: %r" % (data[:160],)
    return True, obj


def run_one(ch, cfg):
    # half of the runs log as the deployed manager does (every record formatted, output discarded):
    # what a request does to the logging calls on its way is part of what it does to the manager
    log_on = ch.draw(2, "logging.as-deployed") == 1
    boot.logging_as_deployed(log_on)
    try:
        return _run_one(ch, cfg)
    finally:
        boot.logging_as_deployed(False)


def _run_one(ch, cfg):
    v1 = ch.draw(6, "mode.v1") == 1
    dcfg = {"post_exit_signer": {"mode": 0x04, "delay": 0.2, "silence": "read_err"},
            "post_exit_uihb": {"mode": 0x03, "delay": 0.2, "silence": "read_err"}}
    tcp = ch.draw(6, "platform.tcp") == 1
    if tcp:
        # the TCPSigner manager: real ManagerRunner + HSM2DongleTCP over the simulated TCP link
        from sim.procworld import ProcWorld
        # (the TCPSigner has no UI: whatever is asked of it, it comes back as the signer)
        w = ProcWorld(ch, platform="tcp", device_cfg=dict(
            dcfg, mode=0x03, post_exit_signer={"mode": 0x03, "delay": 0.2, "silence": "read_err"}),
            step_cap=cfg.get("step_cap", 40000))
        w.manager_task = w.start_manager(v1=v1)
        w.critical_log, w.handler_exceptions = [], []
    else:
        w = ServerWorld(ch, device_cfg=dcfg, v1=v1, step_cap=cfg.get("step_cap", 40000))
        w.start_manager()
    k = w.kernel
    nlines = 1 + ch.draw(cfg["max_lines"], "history.len")
    scan = []
    if ch.draw(40, "nesting-scan") == 1:
        shp = ch.draw(3, "nesting-scan.shape")
        scan = [(d, shp) for d in range(1484, 1501)]
        nlines = len(scan)
    history = []
    viol = []
    kinds = []
    behaviours = set()
    state = {"done": False}
    probe_doc = {"command": "getPubKey", "keyId": PATHS[0], "version": 1 if v1 else 5}

    def send_line(line, behaviour):
        c = w.net.connect()
        if c is None:
            return None, "refused"
        payload = line + b"\n"
        if behaviour == "fragments":
            n = 1 + ch.draw(3, "frag.n")
            cuts = sorted(set(ch.draw(len(payload) + 1, "frag.cut") for _ in range(n)))
            prev = 0
            for cut in cuts + [len(payload)]:
                if cut > prev:
                    c.send(payload[prev:cut])
                    if ch.draw(2, "frag.pause"):
                        # (a slow sender: seconds, or longer than any sensible socket time-out)
                        k.sleep(ch.pick([0.01, 0.6, 2.0, 12.0, 75.0], "frag.delay"))
                    prev = cut
        elif behaviour == "half-close":
            c.send(line)             # no newline, then FIN
            c.half_close()
        elif behaviour == "reset-mid-line":
            # the connection is reset before a whole line arrived (nothing, or a partial line)
            cut = ch.draw(len(line) + 1, "midline.cut") if ch.draw(3, "midline.nothing") else 0
            if cut:
                c.send(line[:cut])
                if ch.draw(2, "midline.pause"):
                    k.sleep(ch.pick([0.01, 0.6], "midline.delay"))
            c.reset()
            return c, "reset"
        elif behaviour == "trailing-bytes":
            # more bytes after the request line (a second line the server must not answer)
            c.send(payload + ch.pick([b'{"command":"version"}\n', b"\x00\xff garbage", b"\n\n"],
                                     "trailing"))
        else:
            c.send(payload)
        if behaviour == "reset":
            c.reset()
            return c, "reset"
        return c, "sent"

    def driver():
        k.block(lambda: w.serving() or w.manager_task.done, 120)
        prev = None
        for i in range(nlines):
            line, kind = gen_line(ch, cfg, v1)
            if scan:
                # one depth after the other through the band where the parser's limit and the limits
                # of whatever handles the parsed value lie a few levels apart
                d, shp = scan.pop(0)
                line = [b"[" * d + b"]" * d, b'{"command":' + b'{"a":' * d + b"1" + b"}" * d + b"}",
                        b'{"command":"version","version":5,"x":' + b"[" * d + b"]" * d + b"}"][shp]
                kind = "deep-nesting"
            if prev is not None and ch.draw(4, "history.retry") == 1:
                line, kind = prev          # a client that sends the very same line again
            prev = (line, kind)
            kinds.append(kind)
            behaviour = ch.weighted([(6, "plain"), (2, "fragments"), (1, "half-close"),
                                     (1, "reset"), (1, "pair"), (1, "trailing-bytes"),
                                     (1, "reset-mid-line"), (1, "hold-open")], "client.behaviour")
            behaviours.add(behaviour)
            entry = {"line": line[:200].decode("latin-1") + ("...(%d bytes)" % len(line)
                                                            if len(line) > 200 else ""),
                     "kind": kind, "behaviour": behaviour}
            history.append(entry)
            other = None
            if behaviour == "pair":
                line2, kind2 = gen_line(ch, cfg, v1)
                kinds.append(kind2)
                other, _ = send_line(line2, "plain")
                entry["paired_with"] = line2[:120].decode("latin-1")
            c, how = send_line(line, behaviour if behaviour != "pair" else "plain")
            if c is None:
                viol.append(("liveness/refused", "connection %d refused: the manager stopped "
                             "listening (%s)" % (i, _outcome(w))))
                return
            for conn in ([c] if how == "sent" else []) + ([other] if other is not None else []):
                if behaviour == "hold-open" and conn is c:
                    # reads its reply line and then keeps the connection open (a pooled or lazily
                    # closed socket): nobody else may be kept waiting for that
                    data = conn.recv_line(600)[0]
                else:
                    data = conn.drain()
                ok, res = check_reply(data, True)
                entry.setdefault("replies", []).append(data[:160].decode("latin-1"))
                if not ok:
                    viol.append(("reply/" + _cause(w), "line %d (%s): %s" % (i, kind, res)))
            # probe on a new connection
            pc = w.net.connect()
            if pc is None:
                viol.append(("liveness/refused-after:" + _cause(w),
                             "after line %d (%s) the manager no longer accepts connections"
                             % (i, kind)))
                return
            pc.send(json.dumps(probe_doc).encode() + b"\n")
            pdata = pc.drain()
            ok, res = check_reply(pdata, True)
            if not ok or res.get("errorcode") != 0:
                viol.append(("liveness/probe-failed:" + _cause(w),
                             "probe after line %d (%s) answered %r" % (i, kind, pdata[:120])))
                return
        state["done"] = True

    k.spawn(driver, "driver")
    outcome = None
    try:
        outcome = k.run(until=lambda: state["done"] or bool(viol), max_time=3600.0)
    except StepCap:
        outcome = "step-cap"
    if not viol and not state["done"]:
        viol.append(("liveness/no-progress:" + _cause(w),
                     "scheduler ended with %s before the history completed (%d/%d lines)"
                     % (outcome, len(history), nlines)))
    if not viol and (w.manager_task.done or not w.serving()):
        viol.append(("liveness/manager-stopped:" + _cause(w), "manager outcome %s" % _outcome(w)))
    if not viol and w.handler_exceptions:
        viol.append(("liveness/handler-exception", str(w.handler_exceptions[0])))
    leaked = w.finish()
    st = ("v1" if v1 else "v5", tuple(sorted(set(kinds))), tuple(sorted(behaviours)))
    dispatched = any(kd not in ("bytes", "bad-utf8") for kd in kinds)
    return {"violations": viol, "digest": w.log.digest(), "state": st, "nontrivial": dispatched,
            "faults": {"client." + b: 1 for b in behaviours if b != "plain"},
            "probes": {"line." + kd: kinds.count(kd) for kd in set(kinds)},
            "sim_s": w.clock.elapsed, "sched": "/".join(k.sched_trace)[-400:] if k.sched_trace else "",
            "sample": {"mode": "v1" if v1 else "v5", "history": history[:6],
                       "scheduler_steps": k.steps, "outcome": outcome, "leaked_threads": leaked}}


def _outcome(w):
    return w.manager_outcome if hasattr(w, "manager_outcome") else w.outcomes.get("mgr0")


def _cause(w):
    """Normalised cause: the text the server logged for the failing request."""
    logs = getattr(w, "critical_log", None)
    if logs:
        return norm(logs[-1])
    return "unknown"


# The server logs the reason for a shutdown through its logger; capture it per world so
# that violation signatures name the cause (logging itself stays disabled).
_orig_init = ServerWorld.__init__


def _init(self, *a, **kw):
    _orig_init(self, *a, **kw)
    self.critical_log = []


ServerWorld.__init__ = _init
_orig_start = ServerWorld.start_manager


def _start(self, *a, **kw):
    t = _orig_start(self, *a, **kw)
    world = self

    class _CapLogger:
        def _n(self, *a, **k):
            pass
        debug = info = warning = error = _n

        def critical(self, msg, *args):
            try:
                world.critical_log.append(msg % args if args else msg)
            except Exception:
                world.critical_log.append(str(msg))
        fatal = critical
    self.server.logger = _CapLogger()
    return t


ServerWorld.start_manager = _start


def _m(owner_path, name, old, new, count=1):
    def apply():
        import importlib
        modname, _, clsname = owner_path.rpartition(".")
        try:
            owner = importlib.import_module(owner_path)
        except ImportError:
            owner = getattr(importlib.import_module(modname), clsname)
        return patch_function(owner, name, old, new, count)
    return apply


MUTANTS = {
    "unicode-error-not-handled": _m("comm.server._RequestHandler", "handle",
                                    "except UnicodeDecodeError:", "except ZeroDivisionError:"),
    "format-error-shuts-down": _m(
        "comm.server._RequestHandler", "handle",
        "response = self.protocol.format_error()",
        "response = self.protocol.format_error(); raise RequestHandlerError('x')"),
    "metadata-valueerror-uncaught": _m("ledger.hsm2dongle.HSM2Dongle", "_send_block_header",
                                       "except (ValueError, OverflowError) as e:",
                                       "except ZeroDivisionError as e:"),
    "unsign-error-uncaught": _m("ledger.protocol.HSM2ProtocolLedger", "_sign",
                                "except Exception as e:", "except ZeroDivisionError as e:"),
    "reply-without-newline": _m("comm.server._RequestHandler", "_reply",
                                'wfile.write("\\n".encode(self.ENCODING))', "pass"),
    # the repaired defects, re-introduced one by one
    "revert-command-type-check": _m("comm.protocol.HSM2Protocol",
                                    "_HSM2Protocol__internal_handle_request",
                                    "if type(command) != str or command not in", "if command not in"),
    "revert-json-recursion-handling": _m("comm.server._RequestHandler", "handle",
                                         "except (RecursionError, ValueError) as e:",
                                         "except ZeroDivisionError as e:"),
    "revert-input-range-check": _m("comm.protocol.HSM2Protocol", "_validate_message",
                                   'and message["input"] >= 0\n and message["input"] <= 0xffffffff',
                                   "", 2),
    "revert-extradata-overflow": _m("ledger.hsm2dongle.HSM2Dongle", "sign_authorized",
                                    "except OverflowError as e:", "except ZeroDivisionError as e:"),
    "revert-too-many-brothers": _m("ledger.hsm2dongle.HSM2Dongle", "_do_block_operation",
                                   "if brother_count > 0xff:", "if False:"),
    "revert-brother-sort-guard": _m("ledger.hsm2dongle.HSM2Dongle", "advance_blockchain",
                                    "except ValueError as e:", "except ZeroDivisionError as e:"),
    "revert-mm-length-overflow": _m("ledger.hsm2dongle.HSM2Dongle", "_send_block_header",
                                    "except (ValueError, OverflowError) as e:",
                                    "except ValueError as e:"),
}

if __name__ == "__main__":
    import checks.c03 as _me
    batch.main(_me)
