"""C04 - device outcomes map onto the result codes documented for each command.

Fault enumeration: one run = one request of one command with ONE outcome
injected at ONE step of its device exchange (status word - any of 65 536 -,
time-out, link error, unexpected opcode).  The step is addressed through a
fault-free dry run of the same request under the same device policy."""
import copy
import itertools

from sim import boot
boot.boot()

from sim import batch                        # noqa: E402
from sim.choices import Choices              # noqa: E402
from sim.world import World                  # noqa: E402
from sim.mutate import patch_function        # noqa: E402
from sim.devices import ledger as L          # noqa: E402
from refs import result_codes as RC          # noqa: E402
from checks import c01, c05                  # noqa: E402

PROPERTY = "C04"
LEVEL = "fault_enumeration"
RULE = ("one run = (command variant, step kind of its APDU exchange, injected outcome); step kinds "
        "come from a fault-free dry run (e.g. sign: path / tx first,mid,last / receipt f,m,l / merkle "
        "f,m,l; advance: init / block meta / block chunk f,m,l / brother-list / brother meta / brother "
        "chunk f,m,l; state: 7 hashes, difficulty, flags; uiHeartbeat: 3 mode queries, 2 exits, 5 "
        "heartbeat ops); outcomes: every status word named in the firmware headers, range boundaries, "
        "seeded others (thorough: all 65 536 per step kind), time-out before/after processing, write "
        "error, read error before/after, unexpected opcode; non-trivial = the fault fired; distinct = "
        "tuple (variant, step kind, outcome class, status word)")
TIERS = {"quick": {"runs": 60000, "wall": 240}, "thorough": {"runs": 400000, "wall": 3000}}
EXHAUSTIVE = {"quick": False, "thorough": True}
COMPONENTS = {
    "real": ["comm.server._RequestHandler", "comm.protocol", "comm.protocol_v1", "ledger.protocol",
             "ledger.protocol_v1", "ledger.hsm2dongle", "ledger.hsm2dongle_cmds.*",
             "ledgerblue.comm.HIDDongleHIDAPI (status word -> CommException)"],
    "stub": ["hid (simulated USB link, fault injection point)", "Signer / UI-heartbeat models", "clock"],
}
ASSUMPTIONS = [
    "status words 0x9000, 0x61xx, 0x6Cxx are not errors for ledgerblue: injected with the normal answer",
    "a truncated / malformed answer is a device that does not keep to its protocol (outside C04)",
    "mandatory codes only for causes the documentation names, at steps where the firmware raises them",
    "thorough tier: exhaustive over the status-word dimension only (fixed request content and policy)",
]

VARIANTS = ["sign.legacy", "sign.segwit", "sign.hash", "getPubKey", "advanceBlockchain",
            "resetAdvanceBlockchain", "blockchainState", "updateAncestorBlock",
            "blockchainParameters", "signerHeartbeat", "uiHeartbeat", "v1.sign", "v1.getPubKey"]
CMD_OF = {"sign.legacy": "sign", "sign.segwit": "sign", "sign.hash": "sign.hash",
          "v1.sign": "sign.hash", "v1.getPubKey": "getPubKey"}
DOC_CMD = {"sign.legacy": "sign", "sign.segwit": "sign", "sign.hash": "sign", "v1.sign": "sign",
           "v1.getPubKey": "getPubKey"}

LINK_KINDS = ["timeout_before", "timeout_after", "write_err", "read_err_before", "read_err_after"]
WRONG_OPS = [0x00, 0x55, 0xEE, 0xFF, 0x01, 0x02, 0x03, 0x04, 0x07, 0x08, 0x09]
SUCCESS_OPS = {"sign": {0x81}, "sign.hash": {0x81}, "advanceBlockchain": {0x05, 0x06},
               "updateAncestorBlock": {0x05}}
INTERESTING = RC.interesting_status_words()
OC_NAMED, OC_ANY, OC_LINK, OC_WRONGOP, OC_BENIGN = range(5)


_BUILT = {}


def build_request(variant, pseed, cseed=0):
    """Deterministic request content per (variant, content seed); returns
    (request, device expectation, v1, device cfg) - fresh copies every time."""
    import copy
    key = (variant, cseed)
    if key not in _BUILT:
        if len(_BUILT) > 2000:
            _BUILT.clear()
        _BUILT[key] = _build_request(variant, pseed, cseed)
    return copy.deepcopy(_BUILT[key])


def _build_request(variant, pseed, cseed=0):
    ch = Choices(seed=1000003 * (VARIANTS.index(variant) + 1) + 7 + 7919 * cseed)
    cfg = {"max_inputs": 2, "max_outputs": 2, "max_nodes": 3, "big": False}
    dcfg = {"max_chunk": 60, "no_early": True}
    v1 = variant.startswith("v1.")
    path = c01.PATHS[pseed % 6] if False else "m/44'/0'/0'/0/0"
    exp = None
    if variant in ("sign.legacy", "sign.segwit"):
        while True:
            req, exp, info = c01.gen_request(ch, cfg, False)
            if info["kind"] == variant.split(".")[1] and len(exp["receipt"]) >= 255 \
                    and info["nodes"] >= 2 and info["path"] in c01.PATHS[:2]:
                break
    elif variant == "sign.hash":
        h = ch.bytes(32, "h")
        req = {"command": "sign", "keyId": "m/44'/137'/0'/0/0", "message": {"hash": h.hex()},
               "version": 5}
        exp = {"kind": "sign", "path": c01.path_bytes("m/44'/137'/0'/0/0") + h}
    elif variant == "v1.sign":
        h = ch.bytes(32, "h")
        req = {"command": "sign", "keyId": "m/44'/137'/0'/0/0", "message": h.hex(), "version": 1}
        exp = {"kind": "sign", "path": c01.path_bytes("m/44'/137'/0'/0/0") + h}
    elif variant in ("getPubKey", "v1.getPubKey"):
        req = {"command": "getPubKey", "keyId": path, "version": 1 if v1 else 5}
    elif variant in ("advanceBlockchain", "updateAncestorBlock"):
        anc = variant == "updateAncestorBlock"
        bcfg = {"max_blocks": 2, "max_bro": 2, "max_cb": 200}
        while True:
            req, exp, info = c05.gen_blocks_request(ch, bcfg, ancestor=anc)
            if info["nblocks"] == 2 and not info["tiny"] and (
                    anc or (info["nbro_total"] >= 3 and len(info["brothers"][0]) >= 2)):
                break
        exp["stop_after"] = None
        exp["ask_brothers"] = None if anc else [True]
        dcfg["max_chunk"] = 200
    elif variant == "signerHeartbeat":
        req = {"command": "signerHeartbeat", "udValue": ch.bytes(16, "ud").hex(), "version": 5}
    elif variant == "uiHeartbeat":
        req = {"command": "uiHeartbeat", "udValue": ch.bytes(32, "ud").hex(), "version": 5}
        dcfg["post_exit_signer"] = {"mode": L.MODE_UI_HEARTBEAT, "delay": 0.2, "silence": "read_err"}
        dcfg["post_exit_uihb"] = {"mode": L.MODE_SIGNER, "delay": 0.2, "silence": "read_err"}
    else:
        req = {"command": variant, "version": 5}
    return req, exp, v1, dcfg


def classify(apdu):
    cmd = apdu[1]
    op = apdu[2] if len(apdu) > 2 else None
    if cmd == 0x02:
        return {1: "path", 2: "tx", 4: "receipt", 8: "merkle"}.get(op, "sign.%r" % op)
    if cmd in (0x10, 0x30):
        return {2: "init", 3: "block.meta", 4: "block.chunk", 7: "brolist", 8: "brother.meta",
                9: "brother.chunk"}.get(op, "adv.%r" % op)
    if cmd == 0x20:
        if op == 1:
            return "hash.%02x" % apdu[3]
        return {2: "diff", 3: "flags"}.get(op, "state.%r" % op)
    if cmd == 0x60:
        return "hb.%d" % op
    return {0x21: "reset", 0x11: "params", 0x04: "pubkey", 0x43: "mode", 0xFF: "exit",
            0x06: "onboard"}.get(cmd, "cmd.%02x" % cmd)


def earlier_for(variant, pseed):
    """History dimension, a function of the policy seed (no extra draw, so that enumerated prefixes
    stay aligned): in a quarter of the seeds the same manager has served another, fault-free request
    of the same protocol mode before the judged one."""
    if pseed % 4 != 3:
        return None
    v1 = variant.startswith("v1.")
    cands = [v for v in VARIANTS if v.startswith("v1.") == v1 and v != "uiHeartbeat"]
    return cands[(pseed // 4) % len(cands)]


def run_request(variant, pseed, fault=None, cseed=0, keep=False, dcfg_override=None, start_locked=False):
    """fault: None or (exchange index relative to the request, kind)."""
    req, exp, v1, dcfg = build_request(variant, pseed, cseed)
    if start_locked:
        # the manager finds the device locked in the bootloader and unlocks it with its PIN
        dcfg.update({"mode": L.MODE_BOOTLOADER, "pin": b"1234567a", "onboarded": True, "retries": 3,
                     "post_exit_ui": {"mode": L.MODE_SIGNER, "delay": 0.2, "silence": "read_err"}})
    for k_, v_ in (dcfg_override or {}).items():
        dcfg[k_] = dict(dcfg.get(k_) or {}, **v_)
    if variant == "advanceBlockchain" and exp is not None:
        # device policy by policy seed: asks for brothers and takes everything (most seeds), or
        # reports partial success straight after the first block without asking for brothers, or
        # partial success at the very end, or total success after the first block
        pol = pseed % 8
        if pol == 5:
            exp["ask_brothers"] = [False]
            exp["stop_after"] = {"n": 1, "partial": True}
        elif pol == 6:
            exp["stop_after"] = {"n": 2, "partial": True}
        elif pol == 7:
            exp["ask_brothers"] = [False]
            exp["stop_after"] = {"n": 1, "partial": False}
    pch = Choices(seed=pseed)
    target = {}

    def fault_fn(i, apdu):
        if fault is not None and i == target.get("abs"):
            return fault[1]
        return None
    w = World(pch, device_cfg=dcfg, v1=v1, fault_fn=fault_fn)
    w.bring_up()
    if variant == "uiHeartbeat" and pseed % 5 == 4:
        # the device was left in the UI heartbeat app (an earlier heartbeat whose way back failed, an
        # operator): the heartbeat is gathered right there, nothing is exited
        w.device.mode = L.MODE_UI_HEARTBEAT
    if variant == "blockchainState":
        # the state the device reports, by policy seed: the firmware strips leading zero bytes from the
        # total difficulty, so a difficulty of zero is a well-formed answer with an empty payload
        w.device.state["difficulty"] = [b"\x01\x00", b"", b"\xff" * 36, b"\x07"][pseed % 4]
        w.device.state["flags"] = [bytes([0, 0, 0]), bytes([1, 0, 0]), bytes([1, 1, 1])][pseed % 3]
    earlier = earlier_for(variant, pseed)
    if earlier is not None:
        req0, exp0, _v1, _d = build_request(earlier, pseed, cseed + 1)
        if exp0 is not None:
            if exp0["kind"] == "sign":
                exp0["der"] = bytes.fromhex("3006020101020102")
            w.device.expect = exp0
        w.request(req0)
        w.device.expect = None
        del w.device.violations[:]
    base = w.link.index
    if fault is not None:
        target["abs"] = base + fault[0]
    if exp is not None:
        if exp["kind"] == "sign":
            exp["der"] = bytes.fromhex("3006020101020102")
        w.device.expect = exp
    rep, exc = w.request(req)
    xch = [e for e in w.link.transport if e[0] == "xchg" and e[1] >= base]
    return w, rep, exc, xch, req


_DRY = {}


def dry(variant, pseed, cseed=0):
    key = (variant, pseed, cseed)
    if key not in _DRY:
        if len(_DRY) > 4000:
            _DRY.clear()
        w, rep, exc, xch, req = run_request(variant, pseed, cseed=cseed)
        classes = [classify(e[2]) for e in xch]
        steps = []
        counts = {}
        for c in classes:
            counts[c] = counts.get(c, 0) + 1
        seen = {}
        for i, c in enumerate(classes):
            seen[c] = seen.get(c, 0) + 1
            if counts[c] == 1:
                pos = "only"
            elif seen[c] == 1:
                pos = "first"
            elif seen[c] == counts[c]:
                pos = "last"
            else:
                pos = "mid"
            steps.append((c, pos))
        kinds = []
        first_of = {}
        for i, k in enumerate(steps):
            if k not in first_of:
                first_of[k] = i
                kinds.append(k)
        code = rep.get("errorcode") if isinstance(rep, dict) else None
        _DRY[key] = {"steps": steps, "kinds": kinds, "first_of": first_of, "code": code,
                     "exc": exc, "apdus": [e[2] for e in xch],
                     "last": xch[-1][3:] if xch else None, "rep": rep, "xch": xch}
    return _DRY[key]


def run_one(ch, cfg):
    variant = VARIANTS[ch.draw(len(VARIANTS), "variant")]
    pseed = ch.draw(cfg.get("pseeds", 1 << 16), "policy-seed")
    d = dry(variant, pseed)
    viol = []
    cmd = CMD_OF.get(variant, variant)
    doc_cmd = DOC_CMD.get(variant, variant)
    v1 = variant.startswith("v1.")
    if d["exc"] is not None or d["code"] not in (0, 1):
        viol.append(("reply/missing-success:%s" % variant,
                     "fault-free run answered %r (%r)" % (d["rep"], d["exc"])))
        return _res(viol, None, (variant, "dry"), False, {}, {"variant": variant})
    if not d["kinds"]:
        # success although the device was never asked (every variant is a device-backed command)
        viol.append(("reply/success-without-device:%s" % variant,
                     "fault-free %s%s answered %r without a single exchange with the device" % (
                         variant, " (after an earlier %s request)" % earlier_for(variant, pseed)
                         if earlier_for(variant, pseed) else "", d["rep"])))
        return _res(viol, None, (variant, "dry"), False, {}, {"variant": variant})
    kind = d["kinds"][ch.slot(len(d["kinds"]), "step-kind")]
    # enumerated cases address the first exchange of the kind (draw value 0); seeded ones any of them
    occ = [i for i, st_ in enumerate(d["steps"]) if st_ == kind]
    k = occ[ch.slot(len(occ), "occurrence")]
    oc = ch.weighted([(4, OC_NAMED), (3, OC_ANY), (2, OC_LINK), (2, OC_WRONGOP), (1, OC_BENIGN)],
                     "outcome-class")
    sw = None
    if oc == OC_NAMED:
        sw = INTERESTING[ch.draw(len(INTERESTING), "sw.named")]
    elif oc == OC_ANY:
        sw = ch.draw(65536, "sw.any")
    if sw is not None and (sw == 0x9000 or (sw & 0xFF00) in (0x6100, 0x6C00)):
        oc = OC_BENIGN
        outcome = ("swdata", sw)
    elif sw is not None:
        outcome = ("sw", sw)
    elif oc == OC_LINK:
        outcome = LINK_KINDS[ch.draw(len(LINK_KINDS), "link-kind")]
    elif oc == OC_WRONGOP:
        ops = [o for o in WRONG_OPS if o not in SUCCESS_OPS.get(cmd, ())]
        outcome = ("wrongop", ops[ch.draw(len(ops), "wrongop")])
    else:
        sw = [0x9000, 0x6100, 0x61FF, 0x6C00, 0x6C10][ch.draw(5, "sw.benign")]
        outcome = ("swdata", sw)
    w, rep, exc, xch, req = run_request(variant, pseed, fault=(k, outcome))
    fired = sum(w.link.stats.faults.values()) > 0
    shutdown = w.shutdown_requested
    apdus = [e[2] for e in xch]
    flow_complete = apdus == d["apdus"]
    noop = oc == OC_WRONGOP and xch == d["xch"]
    is_exit = kind[0] == "exit"
    step_class = kind[0]
    # ---- R1: a reply with an integer result code
    if not isinstance(rep, dict) or type(rep.get("errorcode")) is not int:
        cause = "in-range-status" if sw is not None and RC.in_device_range(sw) else _oname(outcome)
        viol.append(("reply/malformed:%s:%s" % (doc_cmd, cause),
                     "%s at step %s with %s -> reply %r (%r)" % (variant, kind, _o(outcome), rep, exc)))
        code = None
    else:
        code = rep["errorcode"]
    if code is not None:
        # ---- R2: documented set + generic codes
        if code not in RC.permitted(doc_cmd, v1):
            viol.append(("reply/code-not-documented:%s" % doc_cmd,
                         "%s at step %s with %s -> errorcode %d" % (variant, kind, _o(outcome), code)))
        # ---- R3: success exactly when the device reported it
        if oc == OC_BENIGN or noop:
            if code != d["code"]:
                viol.append(("reply/missing-success:%s" % doc_cmd,
                             "%s at step %s with benign %s -> errorcode %d (fault-free: %d)"
                             % (variant, kind, _o(outcome), code, d["code"])))
        elif oc == OC_WRONGOP:
            if code in (0, 1) and not flow_complete:
                viol.append(("reply/false-success:%s" % doc_cmd,
                             "%s at step %s with %s -> errorcode %d but the exchange did not complete"
                             % (variant, kind, _o(outcome), code)))
        elif not is_exit and code in (0, 1):
            viol.append(("reply/false-success:%s" % doc_cmd,
                         "%s at step %s with %s -> errorcode %d" % (variant, kind, _o(outcome), code)))
        # ---- R4: named causes yield their very code
        if sw is not None and oc != OC_BENIGN:
            m = RC.mandatory(cmd, step_class, sw, v1)
            if m is not None and code != m[0]:
                viol.append(("reply/mandatory:%s:%s" % (doc_cmd, m[1]),
                             "%s at step %s: status %s (0x%04x) -> errorcode %d, documented cause "
                             "demands %d" % (variant, kind, m[1], sw, code, m[0])))
    # ---- R5: an error status inside the device's own range never stops the manager
    if sw is not None and oc != OC_BENIGN and RC.in_device_range(sw) and shutdown:
        viol.append(("manager/stopped-by-device-status:%s" % doc_cmd,
                     "%s at step %s: status 0x%04x -> %s: %s" % (
                         variant, kind, sw, type(exc).__name__, exc)))
    # ---- R5 over time: the device keeps answering that status to everything (the wrong application is
    # running, the device is locked ...) while two more requests arrive: still no reason to go down
    if sw is not None and oc != OC_BENIGN and RC.in_device_range(sw) and not shutdown and \
            ch.draw(3, "status-persists") == 1:
        w.link.fault_fn = lambda i, a: ("sw", sw)
        probe = {"command": "getPubKey", "keyId": "m/44'/0'/0'/0/0", "version": 1 if v1 else 5}
        for j in range(2):
            rep2, exc2 = w.request(probe)
            if w.shutdown_requested:
                viol.append(("manager/stopped-by-device-status:%s" % doc_cmd,
                             "%s at step %s: status 0x%04x, then the same status to every exchange: "
                             "follow-up %d -> %s: %s" % (variant, kind, sw, j + 1,
                                                         type(exc2).__name__, exc2)))
                break
        w.link.fault_fn = None
    # ---- link error over time: after a link failure the device stays away while the same request is
    # sent again (its repair fails): still a result code of the documented set, still no reason to go
    # down; when the device is back the request after that is served
    if oc == OC_LINK and fired and not shutdown and not is_exit and not str(outcome).startswith("timeout") \
            and ch.draw(3, "link-stays-down") == 1:
        w.device.plugged = False
        rep2, exc2 = w.request(copy.deepcopy(req))
        code2 = rep2.get("errorcode") if isinstance(rep2, dict) else None
        if exc2 is not None or type(code2) is not int or code2 not in RC.permitted(doc_cmd, v1) \
                or code2 in (0, 1):
            viol.append(("reply/link-stays-down:%s" % doc_cmd,
                         "%s: link failure %s at step %s, device still away for the next %s -> reply %r "
                         "(%s)" % (variant, _o(outcome), kind, variant, rep2,
                                   "%s: %s" % (type(exc2).__name__, exc2) if exc2 else "no exception")))
        w.device.plugged = True
    state = (variant, kind, _oname(outcome), sw)
    return _res(viol, w, state, fired, {"outcome." + _oname(outcome): 1},
                {"variant": variant, "step": list(kind), "exchange_index": k,
                 "outcome": _o(outcome), "reply": rep, "shutdown": shutdown,
                 "steps_in_request": len(d["steps"])})


def _o(outcome):
    if isinstance(outcome, tuple):
        return "%s:0x%x" % (outcome[0], outcome[1])
    return outcome


def _oname(outcome):
    return outcome[0] if isinstance(outcome, tuple) else outcome


def _res(viol, w, state, nontrivial, probes, sample):
    return {"violations": viol, "digest": w.log.digest() if w else "-", "state": state,
            "nontrivial": nontrivial, "faults": dict(w.link.stats.faults) if w else {},
            "probes": probes, "sim_s": w.clock.elapsed if w else 0.0, "sample": sample}


def SIM_CFG(tier):
    return {"pseeds": 1 << 16}


ENUM_LABELS = ["variant", "policy-seed", "step-kind", "occurrence", "outcome-class",
               ("sw.any", "link-kind", "wrongop", "sw.benign", "sw.named")]


class _Enum:
    """Lazy list of prescribed prefixes [variant, policy seed 0, step kind, class, value]."""

    def __init__(self, tier):
        self.blocks = []     # (variant index, kind index)
        for vi, v in enumerate(VARIANTS):
            d = dry(v, 0)
            for ki in range(len(d["kinds"])):
                self.blocks.append((vi, ki))
        self.tier = tier
        self.sw_list = list(range(65536)) if tier == "thorough" else INTERESTING
        self.per_block = len(self.sw_list) + len(LINK_KINDS)

    def __len__(self):
        return len(self.blocks) * self.per_block

    def __getitem__(self, i):
        b, j = divmod(i, self.per_block)
        vi, ki = self.blocks[b]
        if j < len(self.sw_list):
            sw = self.sw_list[j]
            # weighted() maps a raw draw to a class: OC_ANY occupies raw values 4..6
            return [vi, 0, ki, 0, 4, sw]
        # OC_LINK occupies raw values 7..8
        return [vi, 0, ki, 0, 7, j - len(self.sw_list)]


_ENUM = {}


def ENUM(tier):
    if tier not in _ENUM:
        _ENUM[tier] = _Enum(tier)
    return _ENUM[tier]


def EVIDENCE_EXTRA(total):
    e = ENUM("quick")
    return {"step_kinds": len(e.blocks),
            "status_words_per_step_kind_quick": len(INTERESTING),
            "named_status_words": len(RC.NAMED)}


def _m(owner_path, name, old, new, count=1):
    def apply():
        import importlib
        modname, _, clsname = owner_path.rpartition(".")
        try:
            owner = importlib.import_module(owner_path)
        except ImportError:
            owner = getattr(importlib.import_module(modname), clsname)
        return patch_function(owner, name, old, new, count)
    return apply


D = "ledger.hsm2dongle.HSM2Dongle"
P = "ledger.protocol.HSM2ProtocolLedger"
MUTANTS = {
    "chain-mismatch-as-invalid-block": _m(
        D, "advance_blockchain", "err.CHAIN_MISMATCH: response.ERROR_CHAINING_MISMATCH",
        "err.CHAIN_MISMATCH: response.ERROR_INVALID_BLOCK"),
    "tip-mismatch-unmapped": _m(
        D, "update_ancestor", "err.ANCESTOR_TIP_MISMATCH: response.ERROR_TIP_MISMATCH,", ""),
    "pow-codes-as-chaining": _m(
        P, "_translate_advance_result", "DERR.ERROR_POW_INVALID: self.ERROR_CODE_POW_INVALID",
        "DERR.ERROR_POW_INVALID: self.ERROR_CODE_CHAINING_MISMATCH"),
    "receipt-error-as-invalid-message": _m(
        P, "_translate_sign_error",
        "HSM2Dongle.RESPONSE.SIGN.ERROR_TX_RECEIPT: self.ERROR_CODE_INVALID_AUTH",
        "HSM2Dongle.RESPONSE.SIGN.ERROR_TX_RECEIPT: self.ERROR_CODE_INVALID_MESSAGE"),
    "sign-unexpected-maps-to-ok": _m(
        P, "_translate_sign_error",
        "HSM2Dongle.RESPONSE.SIGN.ERROR_UNEXPECTED: self.ERROR_CODE_DEVICE",
        "HSM2Dongle.RESPONSE.SIGN.ERROR_UNEXPECTED: self.ERROR_CODE_OK_PARTIAL"),
    "user-range-shrunk": _m(
        "ledger.hsm2dongle._Error", "is_user_defined_error",
        "code >= 0x69A0 and code <= 0x6BFF", "code >= 0x6A00 and code <= 0x6BFF"),
    "pubkey-error-is-device-error": _m(
        P, "_get_pubkey", "return (self.ERROR_CODE_INVALID_KEYID,)", "return (self.ERROR_CODE_DEVICE,)"),
    "timeout-on-state-uncaught": _m(
        P, "_blockchain_state", "HSM2DongleTimeoutError) as e:",
        "HSM2DongleCommError) as e:"),
    "error-result-on-params-uncaught": _m(
        P, "_get_blockchain_parameters", "HSM2DongleErrorResult, ", ""),
    "brothers-too-many-unmapped": _m(
        D, "_do_block_operation", "if e.error_code in [errors.PROT_INVALID, errors.BROTHERS_TOO_MANY]:",
        "if e.error_code in [errors.PROT_INVALID]:"),
    "heartbeat-error-ignored": _m(
        P, "_signer_heartbeat", "if not heartbeat[0]:", "if False and not heartbeat[0]:"),
    "advance-unexpected-maps-to-partial": _m(
        P, "_translate_advance_result", "DERR.ERROR_UNEXPECTED: self.ERROR_CODE_UNKNOWN",
        "DERR.ERROR_UNEXPECTED: self.ERROR_CODE_OK_PARTIAL"),
    "ancestor-init-error-undocumented-code": _m(
        P, "_translate_update_ancestor_result",
        "HSM2Dongle.RESPONSE.UPD_ANCESTOR.ERROR_INIT: self.ERROR_CODE_DEVICE",
        "HSM2Dongle.RESPONSE.UPD_ANCESTOR.ERROR_INIT: self.ERROR_CODE_INVALID_BROTHERS"),
}

if __name__ == "__main__":
    import checks.c04 as _me
    batch.main(_me)
