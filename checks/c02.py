"""C02 - requests are classified exactly as the protocol documents prescribe, and
a request that is not accepted causes no exchange with the device at all.

The same generated JSON value is classified by the real manager in a manager
state reached by faults (fresh / after a device error / reconnection pending
after an injected read error / after a failed reconnection) and compared with
an executable reading of docs/protocol*.md (refs/protocol_spec.py)."""
import copy
import json

from sim import boot
boot.boot()

from sim import batch                        # noqa: E402
from sim.world import World                  # noqa: E402
from sim.mutate import patch_function        # noqa: E402
from refs import protocol_spec as SPEC       # noqa: E402
from refs import btc, rsk                    # noqa: E402
from checks.c01 import PATHS                 # noqa: E402

MUTANT_RUNS = 60000
PROPERTY = "C02"
LEVEL = "exploration"
RULE = ("one run = one JSON value (a well-formed request of one of the 10 commands / 3 in v1 with 0..3 "
        "seeded mutations: member deleted, retyped, boundary value, extra member, non-object) classified "
        "by a manager that has already served 0..2 earlier requests (unrelated, the same request, or one "
        "sharing its keyId), in one of 4 manager states reached by injected faults, or with a link failure "
        "during the request itself; observed verdict = "
        "accepted iff any link activity (APDU, close, enumerate, open) happened or `version` answered 0, "
        "else rejected(code); compared with the three-valued reference; non-trivial = the reference gave "
        "a definite verdict (accept / reject); distinct = tuple (mode, command, mutation kinds, reference "
        "verdict, manager state)")
TIERS = {"quick": {"runs": 300000, "wall": 240}, "thorough": {"runs": 3000000, "wall": 3000}}
COMPONENTS = {
    "real": ["comm.server._RequestHandler (json parsing)", "comm.protocol", "comm.protocol_v1",
             "comm.utils", "comm.bip32", "ledger.protocol", "ledger.protocol_v1", "ledger.hsm2dongle",
             "comm.bitcoin"],
    "stub": ["hid link", "Signer model (record-only: content of accepted requests is not judged here)",
             "bitcoin.core stand-in", "clock"],
}
ASSUMPTIONS = [
    "A1 message object has exactly the documented keys", "A2 input is a JSON integer, not a boolean",
    "A3 outpointValue in 1..2^64-1", "A4 udValue exactly 16 / 32 bytes",
    "A5 blocks non-empty array of strings; brothers array of same length of arrays of non-empty hex strings",
    "A6 merkle proof non-empty", "A7 key id grammar m/ + 5 decimal components < 2^31 with optional quote",
    "A8 content of blocks / brothers / transaction beyond 'decodes with non-empty scripts' is judged "
    "during the exchange: documents silent (may)",
    "hex with embedded white space, leading zeroes / non-ASCII digits in key ids, 5.0 as version, "
    "undocumented extra members: documents silent (may)",
    "requests that crash the handler (empty reply) are C03's subject and yield no verdict here",
]

STATES = ["fresh", "after-device-error", "reconnection-pending", "after-failed-reconnection",
          "link-fault-in-this-request"]
WEIRD = [None, True, False, 0, 1, -1, 5, 2 ** 32, 2 ** 64, 1.5, 5.0, "", "x", "zz", "00", [], [1], {},
         {"a": 1}, "0x00", " 00", "00 11"]


def base_request(ch, cmd, v1):
    ver = 1 if v1 else 5
    if cmd == "version":
        return {"command": "version"} if ch.draw(2, "ver.bare") == 0 else \
            {"command": "version", "version": ver}
    if cmd == "getPubKey":
        return {"command": cmd, "keyId": ch.pick(PATHS + ["m/44'/0'/0'/0/1", "m/0/0/0/0/0"], "path"),
                "version": ver}
    if cmd == "sign" and v1:
        return {"command": cmd, "keyId": ch.pick(PATHS, "path"), "message": ch.bytes(32, "h").hex(),
                "version": 1}
    if cmd == "sign":
        kind = ch.pick(["hash", "legacy", "segwit"], "kind")
        if kind == "hash":
            return {"command": cmd, "keyId": ch.pick(PATHS, "path"),
                    "message": {"hash": ch.bytes(32, "h").hex()}, "version": 5}
        raw, _ = btc.gen_tx(ch, 2, 2)
        msg = {"tx": raw.hex(), "input": ch.pick([0, 1, 2 ** 32 - 1], "input"),
               "sighashComputationMode": kind}
        if kind == "segwit":
            msg["witnessScript"] = ch.bytes(ch.pick([1, 40], "wslen"), "ws").hex()
            msg["outpointValue"] = ch.pick([1, 2 ** 64 - 1, 5000], "ov")
        return {"command": cmd, "keyId": ch.pick(PATHS, "path"), "message": msg,
                "auth": {"receipt": ch.bytes(20, "rc").hex(),
                         "receipt_merkle_proof": [ch.bytes(8, "n").hex()
                                                  for _ in range(1 + ch.draw(2, "nn"))]},
                "version": 5}
    if cmd in ("advanceBlockchain", "updateAncestorBlock"):
        n = [1, 2, 1, 2, 1, 2, 11, 0][ch.draw(8, "nblk")] or ch.pick([10, 12, 17, 40], "nblk.many")
        blocks = []
        if n >= 10:
            # a long batch (what a node catching up sends): one well-formed header, repeated - the
            # verdict on the request's form does not depend on how many blocks it carries
            blocks = [rsk.gen_header(ch, nfields=19, max_cb=100)["raw"].hex()] * n
        for _ in range(n if n < 10 else 0):
            if ch.draw(3, "blk.kind") == 0:
                blocks.append(rsk.gen_header(ch, nfields=19, max_cb=100)["raw"].hex())
            else:
                blocks.append(ch.pick(["aabb", "zz", "", "c0"], "blk.garbage"))
        d = {"command": cmd, "blocks": blocks, "version": 5}
        if cmd == "advanceBlockchain":
            d["brothers"] = [[] for _ in range(n)]
        return d
    if cmd in ("signerHeartbeat", "uiHeartbeat"):
        n = 16 if cmd == "signerHeartbeat" else 32
        return {"command": cmd, "udValue": ch.bytes(n, "ud").hex(), "version": 5}
    return {"command": cmd, "version": ver}


def paths_of(doc, prefix=()):
    out = []
    if isinstance(doc, dict):
        for k in doc:
            out.append(prefix + (k,))
            out.extend(paths_of(doc[k], prefix + (k,)))
    elif isinstance(doc, list):
        for i in range(len(doc)):
            out.append(prefix + (i,))
            out.extend(paths_of(doc[i], prefix + (i,)))
    return out


def get_parent(doc, path):
    cur = doc
    for p in path[:-1]:
        cur = cur[p]
    return cur


# decimal digits outside ASCII (Arabic-Indic, full-width, Devanagari): digits for str.isdigit / int() /
# an un-flagged \\d, not hexadecimal digits
_UD = "\u0660\u0661\u0662\u0663\uff10\uff11\u0966\u0967"


def _udhex(nchars):
    return (_UD * (nchars // len(_UD) + 1))[:nchars]


SPECIAL = {
    "keyId": ["m/44'/0'/0'/0", "m/44'/0'/0'/0/0/0", "44'/0'/0'/0/0", "M/44'/0'/0'/0/0",
              "m/44h/0'/0'/0/0", "m/2147483648/0/0/0/0", "m/2147483647'/0/0/0/0", "m/-1/0/0/0/0",
              "m/44'/0'/0'/0/", "m/44''/0'/0'/0/0", "m/044'/0'/0'/0/0", "m/ 44'/0'/0'/0/0", "m/"],
    "version": [4, 6, "5", 5.0, True, None, 1, 0, [5]],
    "command": ["foo", "", "Version", "SIGN", "getpubkey", 5, None, ["sign"], {"a": 1}, True],
    "input": [-1, 2 ** 32, 2 ** 32 - 1, 1.0, True, "0", None, 2 ** 70],
    "outpointValue": [0, -1, 2 ** 64, 2 ** 64 - 1, 1, 1.0, True, "1", None],
    "sighashComputationMode": ["Legacy", "SEGWIT", "", "taproot", 0, None, "legacy ", " segwit",
                               "LEGACY", "Segwit", "legacy\u0000"],
    "hash": ["0" * 63, "abc", "00" * 31, "00" * 33, "zz" * 32, "0x" + "00" * 31, "", 5, None, ("00 " * 32).strip(),
             _udhex(64), "ab" * 31 + "\u0661\u0662"],
    "udValue": ["0" * 31, "0" * 63, "00" * 15, "00" * 17, "00" * 16, "00" * 32, "gg" * 16, "", 7, None,
                _udhex(32), _udhex(64), "ab" * 15 + "\uff11\uff12", "ab" * 31 + "\u0967\u0966"],
    "tx": ["abc", "0", "", "aabbcc", "zz", 5, None, "0100000001" + "00" * 36 + "00" + "ffffffff" + "00" + "00000000"],
    "receipt": ["", "zz", 5, None, [], "abc", "0", "00f", _udhex(20), "f8" + _udhex(6)],
    "receipt_merkle_proof": [[], "00", None, [""], ["zz"], [5], [[]], {}, ["abc"], ["00", "0"],
                             [_udhex(8)], ["00", "ab" + _udhex(2)]],
    "blocks": [[], None, "00", [5], [None], [[]], {}, ["00", 5]],
    "brothers": [[], None, "00", [[]], [5], [["zz"]], [[""]], [[5]], [["00"]], [[], []], {},
                 [["abc"]], [["0"]]],
    "message": [None, "hash", ["hash"], 5, {}, "00" * 32],
    "auth": [None, [], "x", 5, {}],
    "witnessScript": ["", "zz", 5, None, "abc", "0", "00f", _udhex(10)],
}


def mutate(ch, doc):
    """-> (doc, kind)"""
    k = ch.draw(8, "mut.kind")
    if k == 0 or not isinstance(doc, dict):
        return copy.deepcopy(ch.pick([[], "sign", 5, None, True, [doc], 1.5, "{}"],
                                     "mut.nonobject")), "non-object"
    ps = paths_of(doc)
    if not ps:
        return doc, "none"
    path = ps[ch.draw(len(ps), "mut.path")]
    parent = get_parent(doc, path)
    key = path[-1]
    if k == 1:
        if isinstance(parent, dict):
            del parent[key]
        else:
            parent.pop(key)
        return doc, "delete"
    if k == 2:
        parent[key] = copy.deepcopy(WEIRD[ch.draw(len(WEIRD), "mut.weird")])
        return doc, "retype"
    if k in (3, 4, 5):
        sp = [p_ for p_ in ps if isinstance(p_[-1], str) and p_[-1] in SPECIAL]
        if sp:
            path = sp[ch.draw(len(sp), "mut.spath")]
            parent = get_parent(doc, path)
            key = path[-1]
        name = key if isinstance(key, str) else (path[-2] if len(path) > 1 else "")
        opts = SPECIAL.get(name)
        if opts:
            parent[key] = copy.deepcopy(opts[ch.draw(len(opts), "mut.special")])
            return doc, "boundary:" + str(name)
        parent[key] = copy.deepcopy(WEIRD[ch.draw(len(WEIRD), "mut.weird")])
        return doc, "retype"
    if k == 6:
        tgt = parent if isinstance(parent, dict) else doc
        tgt[ch.pick(["extra", "hash", "tx", "auth", "input"], "mut.extrakey")] = \
            copy.deepcopy(WEIRD[ch.draw(len(WEIRD), "mut.weird")])
        return doc, "extra-member"
    # swap the command keeping the fields
    doc["command"] = ch.pick(["sign", "getPubKey", "version", "blockchainState", "uiHeartbeat",
                              "advanceBlockchain"], "mut.cmd")
    return doc, "command-swapped"


def prepare_state(w, ch, state):
    """Drive the manager into `state` by faults on earlier requests."""
    dev, link = w.device, w.link
    probe = {"command": "blockchainState", "version": 5} if not w.v1 else \
        {"command": "getPubKey", "keyId": PATHS[0], "version": 1}
    if state in ("fresh", "link-fault-in-this-request"):
        return
    nxt = link.index
    if state == "after-device-error":
        link.fault_fn = lambda i, a: ("sw", 0x6B87) if i == nxt else None
        w.request(probe)
    else:
        link.fault_fn = lambda i, a: "read_err_before" if i == nxt else None
        w.request(probe)
        if state == "after-failed-reconnection":
            dev.plugged = False
            w.request(probe)
            dev.plugged = True
    link.fault_fn = None


def run_one(ch, cfg):
    # half of the runs log as the deployed manager does (every record formatted, output discarded):
    # what the logging calls on a request's way do to it is part of how it gets classified
    from sim import boot
    log_on = ch.draw(2, "logging.as-deployed") == 1
    boot.logging_as_deployed(log_on)
    try:
        return _run_one(ch, cfg)
    finally:
        boot.logging_as_deployed(False)


def _run_one(ch, cfg):
    v1 = ch.draw(5, "mode.v1") == 1
    cmds = ["version", "sign", "getPubKey"] if v1 else \
        ["version", "sign", "getPubKey", "advanceBlockchain", "resetAdvanceBlockchain",
         "blockchainState", "updateAncestorBlock", "blockchainParameters", "signerHeartbeat",
         "uiHeartbeat"]
    cmd = ch.pick(cmds + (["sign"] * 5 + ["advanceBlockchain"] * 2 if not v1 else ["sign"]),
                  "command")
    doc = base_request(ch, cmd, v1)
    nmut = ch.weighted([(3, 1), (2, 0), (2, 2), (1, 3)], "nmut")
    kinds = []
    for _ in range(nmut):
        doc, kind = mutate(ch, doc)
        kinds.append(kind)
    state = ch.pick(STATES, "manager-state")
    ref = SPEC.verdict(doc, v1)
    dcfg = {"post_exit_signer": {"mode": 0x04, "delay": 0.2, "silence": "read_err"},
            "post_exit_uihb": {"mode": 0x03, "delay": 0.2, "silence": "read_err"}}
    w = World(ch, device_cfg=dcfg, v1=v1)
    w.bring_up()
    # history: the same manager has already handled 0..2 other requests (valid or not); the verdict
    # on a JSON value must not depend on what was asked before
    nprev = [0, 0, 1, 2][ch.draw(4, "earlier-requests")]
    for _ in range(nprev):
        pdoc = base_request(ch, ch.pick(cmds + (["sign"] * 4 if not v1 else ["sign"]), "earlier.command"), v1)
        if ch.draw(3, "earlier.mutated") == 1:
            pdoc, _k = mutate(ch, pdoc)
        same = ch.draw(4, "earlier.same")
        if same == 1:
            pdoc = copy.deepcopy(doc)            # a client that simply retries the very request
        elif same == 2 and isinstance(doc, dict) and isinstance(pdoc, dict) and "keyId" in doc:
            pdoc["keyId"] = copy.deepcopy(doc["keyId"])      # another request about the same key id
        try:
            pline = json.dumps(pdoc)
        except (TypeError, ValueError):
            pline = "null"
        w.request_line(pline.encode())
        if w.shutdown_requested:
            return _res([], w, ("earlier-request-stopped-manager",), False, {"earlier_stopped": 1}, {})
    prepare_state(w, ch, state)
    viol = []
    if w.shutdown_requested:
        return _res([("harness/state-preparation", "manager stopped while preparing %s" % state)],
                    w, ("prep",), False, {}, {})
    m0 = len(w.link.transport)
    hit = {}
    if state == "link-fault-in-this-request":
        # the request itself meets a link failure at one of its first exchanges: a request the documents
        # accept can then only end in the generic device error, never in a verdict about its format
        at = w.link.index + ch.draw(3, "this-request.fault-at")
        kind = ch.pick(["read_err_before", "write_err", "read_err_after"], "this-request.fault-kind")

        def _ffn(i, a):
            if i == at:
                hit["kind"] = kind
                return kind
            return None
        w.link.fault_fn = _ffn
    try:
        line = json.dumps(doc)
    except (TypeError, ValueError):
        line = "null"
    rep, exc = w.request_line(line.encode())
    w.link.fault_fn = None
    try:
        rep = json.loads(rep.decode())
    except Exception:
        rep = None
    activity = w.link.transport[m0:]
    crashed = exc is not None and not (isinstance(rep, dict) and type(rep.get("errorcode")) is int)
    code = rep.get("errorcode") if isinstance(rep, dict) else None
    is_version_cmd = isinstance(doc, dict) and doc.get("command") == "version"
    if crashed:
        observed = ("crash",)
    elif activity or (is_version_cmd and code == 0):
        observed = ("accepted",)
    else:
        observed = ("rejected", code)
    tag = "%s/%s" % ("v1" if v1 else "v5",
                     doc.get("command") if isinstance(doc, dict) and
                     isinstance(doc.get("command"), str) else "-")
    desc = "%s in state %s -> reply %r, link activity %s; reference %s" % (
        line[:300], state, rep, [e[0] for e in activity][:8], _v(ref))
    if observed[0] == "crash":
        # no verdict at all (a reply without result code, the manager going down): that is C03's
        # subject for arbitrary input; here it is reported where the documents prescribe a definite
        # verdict for the value, and where an invalid request reached the device on the way
        if ref[0] == "reject" and activity:
            viol.append(("spec/device-contact-on-invalid:%s" % tag, desc))
        elif ref[0] == "reject":
            viol.append(("spec/no-verdict-for-invalid:%s" % tag, desc + " (%s)" % exc))
        elif ref[0] == "may":
            # a value the documents leave to the implementation gets one of the verdicts they allow
            # for it (accepted, or refused with a listed code) - no verdict at all is none of them
            viol.append(("spec/no-verdict-for-undecided:%s" % tag, desc + " (%s)" % exc))
    elif ref[0] == "accept":
        if observed[0] != "accepted":
            viol.append(("spec/rejected-valid:%s" % tag, desc))
        elif hit and code not in (0, 1, -905, -906, -2):       # (an exit exchange of uiHeartbeat may fail)
            viol.append(("spec/format-verdict-after-link-failure:%s" % tag,
                         desc + " (link failure %s during this request)" % hit["kind"]))
    elif ref[0] == "reject":
        if observed[0] == "accepted":
            if activity:
                viol.append(("spec/device-contact-on-invalid:%s" % tag, desc))
            else:
                viol.append(("spec/accepted-invalid:%s" % tag, desc))
        elif type(code) is not int or code not in ref[1]:
            viol.append(("spec/wrong-code:%s" % tag, desc))
    else:
        if observed[0] == "rejected" and (type(code) is not int or code not in ref[1]):
            viol.append(("spec/wrong-code:%s" % tag, desc))
    st = ("v1" if v1 else "v5", cmd, tuple(sorted(set(kinds))), ref[0], state, nprev)
    return _res(viol, w, st, ref[0] != "may",
                {"ref." + ref[0]: 1, "obs." + observed[0]: 1, "state." + state: 1},
                {"mode": "v1" if v1 else "v5", "request": line[:400], "mutations": kinds,
                 "manager_state": state, "reference": _v(ref), "reply": rep,
                 "link_activity": [e[0] for e in activity][:6]})


def _v(ref):
    return ref[0] if len(ref) == 1 else "%s%s" % (ref[0], sorted(ref[1]))


def _res(viol, w, state, nontrivial, probes, sample):
    return {"violations": viol, "digest": w.log.digest(), "state": state, "nontrivial": nontrivial,
            "faults": dict(w.link.stats.faults), "probes": probes, "sim_s": w.clock.elapsed,
            "sample": sample}


def _m(owner_path, name, old, new, count=1):
    def apply():
        import importlib
        modname, _, clsname = owner_path.rpartition(".")
        try:
            owner = importlib.import_module(owner_path)
        except ImportError:
            owner = getattr(importlib.import_module(modname), clsname)
        return patch_function(owner, name, old, new, count)
    return apply


C = "comm.protocol.HSM2Protocol"
P = "ledger.protocol.HSM2ProtocolLedger"
MUTANTS = {
    "outpoint-zero-accepted": _m(C, "_validate_message", 'message["outpointValue"] > 0',
                                 'message["outpointValue"] >= 0'),
    "outpoint-upper-bound-off": _m(C, "_validate_message", "<= 0xffffffffffffffff",
                                   "<= 0xfffffffffffffffff"),
    "ud-value-length-unchecked": _m(C, "_validate_signer_heartbeat",
                                    "self.SIGNER_HBT_UD_VALUE_SIZE)", "32)"),
    "brothers-length-unchecked": _m(C, "_validate_advance_blockchain",
                                    'or len(request["brothers"]) != len(request["blocks"])', ""),
    "empty-proof-accepted": _m(C, "_validate_auth", 'or len(auth["receipt_merkle_proof"]) == 0', ""),
    "keyid-any-depth": _m("comm.bip32.BIP32Path", "__init__",
                          "if nelements is not None and len(self._elements) != nelements:",
                          "if False:"),
    "extra-message-keys-accepted": _m(C, "_validate_message", "and len(message) == 3", ""),
    "bool-input-accepted": _m("comm.utils", "has_field_of_type", "type(mp[name]) == tp",
                              "isinstance(mp[name], tp)"),
    "tx-decoded-after-connecting": _m(
        P, "_sign", "unsigned_btc_tx = get_unsigned_tx(msg[\"tx\"])",
        "self.ensure_connection(); unsigned_btc_tx = get_unsigned_tx(msg[\"tx\"])"),
    "v1-wrong-version-code": _m("comm.protocol_v1.HSM1Protocol", "_validate_sign",
                                "return self.ERROR_CODE_INVALID_MESSAGE", "return -666"),
    "blocks-may-be-empty": _m(C, "_validate_update_ancestor_block",
                              'or len(request["blocks"]) < self.MINIMUM_UPDATE_ANCESTOR_BLOCKS', ""),
}

if __name__ == "__main__":
    import checks.c02 as _me
    batch.main(_me)
