"""C13 - query replies report the device's data verbatim; a UI heartbeat leaves
the device back in signer mode or reports a device error.

Two-party simulation: device state drawn per run; getPubKey x 6 paths,
blockchainState, blockchainParameters, signerHeartbeat, then one uiHeartbeat
mode walk (signer -> exit/USB re-enumeration/boot delay -> UI heartbeat -> exit
-> signer) whose delays, resulting modes and link-death kinds are seeded."""
import hashlib

from sim import boot
boot.boot()

from sim import batch                       # noqa: E402
from sim.world import World                 # noqa: E402
from sim.mutate import patch_function       # noqa: E402
from sim.devices import ledger as L         # noqa: E402
from checks.c01 import PATHS, path_bytes    # noqa: E402

PROPERTY = "C13"
LEVEL = "exploration"
RULE = ("one run = one drawn device state (7 hashes, difficulty, 3 flag bytes, checkpoint, "
        "minimum difficulty, network, per-path keys, heartbeat material with DER shapes) queried "
        "through getPubKey x6, blockchainState, blockchainParameters, signerHeartbeat (a second round after "
        "the state advanced or the device was swapped; in a quarter of the runs one query in four meets a "
        "link fault and may answer the device error; in a fifth of those runs the fault is an answer that "
        "arrives after the exchange time-out and stays queued on the handle: what goes wrong until the handle "
        "is re-opened is the known finding late-answer/reply-for-an-earlier-request) and one "
        "uiHeartbeat mode walk with drawn boot delays / post-exit modes / link-death kinds; "
        "non-trivial = all query kinds answered; distinct = tuple (difficulty length class, "
        "flag bytes, network, DER shapes, walk class, initial mode)")
TIERS = {"quick": {"runs": 60000, "wall": 240}, "thorough": {"runs": 2000000, "wall": 3000}}
COMPONENTS = {
    "real": ["comm.server._RequestHandler", "comm.protocol", "ledger.protocol",
             "ledger.hsm2dongle", "ledger.parameters", "ledger.signature",
             "ledger.hsm2dongle_cmds.signer_heartbeat", "ledger.hsm2dongle_cmds.ui_heartbeat",
             "ledgerblue.comm (getDongle, HIDDongleHIDAPI)", "ledgerblue.ledgerWrapper"],
    "stub": ["hid (simulated USB link incl. re-enumeration)", "Signer / UI-heartbeat models "
             "(bc_state.c, heartbeat.c, ui_heartbeat.c)", "clock (virtual; OPEN_APP_WAIT sleeps)"],
}
ASSUMPTIONS = [
    "a heartbeat that starts in UI-heartbeat mode is judged by 'ends in the mode it started in'",
    "numbers are compared as unsigned integers whatever their JSON form (int or hex string)",
]

NETWORKS = {1: "mainnet", 2: "testnet", 3: "regtest"}


def gen_der(ch, label):
    shape = ch.weighted([(5, "plain"), (2, "0x31"), (2, "trailing"), (2, "short"), (2, "long")],
                        label + ".shape")
    rlen = {"short": 1, "long": 33}.get(shape) or ch.pick([32, 33, 1, 31], label + ".rlen")
    slen = {"short": 1, "long": 33}.get(shape) or ch.pick([32, 33, 1, 31], label + ".slen")
    r = ch.bytes(rlen, label + ".r")
    s = ch.bytes(slen, label + ".s")
    body = b"\x02" + bytes([rlen]) + r + b"\x02" + bytes([slen]) + s
    der = bytes([0x31 if shape == "0x31" else 0x30, len(body)]) + body
    if shape == "trailing":
        der += ch.bytes(ch.pick([1, 2], label + ".trail"), label + ".tb")
    return der, shape, r.hex(), s.hex()


def as_uint(v):
    if isinstance(v, bool):
        return None
    if isinstance(v, int):
        return v
    if isinstance(v, str):
        try:
            return int(v, 16)
        except ValueError:
            return None
    return None


def draw_state(ch, seed):
    state = {}
    for sel, name in L.STATE_SELECTORS.items():
        state[name] = hashlib.sha256(seed + bytes([sel])).digest()
    dclass = ch.pick(["rnd", "zero", "one", "max", "len1", "len36", "leading-zero-free"], "diff.class")
    if dclass == "zero":
        diff = b""
    elif dclass == "one":
        diff = b"\x01"
    elif dclass == "max":
        diff = b"\xff" * 36
    elif dclass == "len1":
        diff = bytes([1 + ch.draw(255, "diff.b")])
    elif dclass == "len36":
        diff = bytes([1 + ch.draw(255, "diff.b0")]) + ch.bytes(35, "diff.rest")
    else:
        n = ch.int_between(1, 36, "diff.len")
        diff = bytes([1 + ch.draw(255, "diff.b0")]) + ch.bytes(n - 1, "diff.rest")
    state["difficulty"] = diff
    flags = bytes(ch.pick([0, 1, 0, 1, 2, 0x80, 0xff], "flag") for _ in range(3))
    state["flags"] = flags
    net = ch.pick([1, 2, 3], "net")
    mind = ch.pick([0, 1, 2 ** 288 - 1, ch.draw(2 ** 64, "mind.rnd") + 1,
                    int.from_bytes(ch.bytes(36, "mind.full"), "big")], "mind")
    params = {"checkpoint": hashlib.sha256(b"cp" + seed).digest(), "min_diff": mind,
              "network": net}
    sder, sshape, sr, ss = gen_der(ch, "shb.der")
    uder, ushape, ur, us = gen_der(ch, "uhb.der")
    hb = {
        "signer": {"signature": sder, "msg_prefix": b"HSM:SIGNER:HB:5.4:",
                   "msg_tail": hashlib.sha256(b"best" + seed).digest() + ch.bytes(8, "lasttx"),
                   "app_hash": hashlib.sha256(b"sghash" + seed).digest(),
                   "pubkey": b"\x04" + hashlib.sha512(b"sgpk" + seed).digest()},
        "ui": {"signature": uder, "msg_prefix": b"HSM:UI:HB:5.4:",
               "msg_tail": hashlib.sha256(b"sgh" + seed).digest() + ch.bytes(2, "iter"),
               "app_hash": hashlib.sha256(b"uihash" + seed).digest(),
               "pubkey": b"\x04" + hashlib.sha512(b"uipk" + seed).digest()},
    }
    return {"state": state, "diff": diff, "dclass": dclass, "flags": flags, "net": net, "mind": mind,
            "params": params, "hb": hb, "sr": sr, "ss": ss, "ur": ur, "us": us, "sshape": sshape,
            "ushape": ushape}


def _mislabel(b):
    """A well-formed hash item of the state query, labelled with another hash's code (an answer that
    got out of step): anything but a state hash answer is left alone."""
    b = bytes(b)
    if len(b) >= 4 and b[1] == 0x20 and b[2] == 0x01 and 1 <= b[3] <= 0x84:
        other = {0x01: 0x02, 0x02: 0x03, 0x03: 0x05, 0x05: 0x01, 0x81: 0x82, 0x82: 0x84, 0x84: 0x81}
        code = other.get(b[3], 0x01)
        value = _mislabel.dev.state[L.STATE_SELECTORS[code]] if _mislabel.dev is not None else b[4:]
        return b[:3] + bytes([code]) + value          # the item the device holds for that other code
    return b


_mislabel.dev = None


def run_one(ch, cfg):
    seed = ch.bytes(6, "devseed")
    S = draw_state(ch, seed)
    state, diff, dclass, flags, net, mind = (S["state"], S["diff"], S["dclass"], S["flags"], S["net"],
                                             S["mind"])
    params, hb, sr, ss, ur, us, sshape, ushape = (S["params"], S["hb"], S["sr"], S["ss"], S["ur"],
                                                  S["us"], S["sshape"], S["ushape"])
    # ---- uiHeartbeat walk policy
    walk = ch.weighted([(6, "benign"), (1, "slow-boot-1"), (1, "wrong-mode-1"), (1, "slow-boot-2"),
                        (1, "wrong-mode-2"), (1, "timeout-death-1"), (1, "timeout-death-2"),
                        (1, "start-in-uihb"), (1, "mode-byte-ff"),
                        # two deviations at once: the device is not back when the manager re-opens it
                        # *and* it comes back in another mode than expected
                        (1, "slow-wrong-1"), (1, "slow-wrong-2")], "walk")
    dcfg = {"state": state, "params": params, "hb": hb}
    d1 = ch.pick([0.2, 0.0, 0.9, 0.99], "walk.d1")
    d2 = ch.pick([0.2, 0.0, 0.9, 0.99], "walk.d2")
    e1 = {"mode": L.MODE_UI_HEARTBEAT, "delay": d1, "silence": "read_err"}
    e2 = {"mode": L.MODE_SIGNER, "delay": d2, "silence": "read_err"}
    if walk == "slow-boot-1":
        e1["delay"] = ch.pick([1.5, 30.0, 1.01], "walk.slow")
    elif walk == "wrong-mode-1":
        e1["mode"] = ch.pick([L.MODE_SIGNER, L.MODE_BOOTLOADER, 0x00], "walk.wm")
    elif walk == "slow-boot-2":
        e2["delay"] = ch.pick([1.5, 30.0, 1.01], "walk.slow")
    elif walk == "wrong-mode-2":
        e2["mode"] = ch.pick([L.MODE_UI_HEARTBEAT, L.MODE_BOOTLOADER, 0x00], "walk.wm")
    elif walk == "slow-wrong-1":
        e1["delay"] = ch.pick([1.5, 30.0, 1.01], "walk.slow")
        e1["mode"] = ch.pick([L.MODE_SIGNER, L.MODE_BOOTLOADER, 0x00], "walk.wm")
    elif walk == "slow-wrong-2":
        e2["delay"] = ch.pick([1.5, 30.0, 1.01], "walk.slow")
        e2["mode"] = ch.pick([L.MODE_UI_HEARTBEAT, L.MODE_BOOTLOADER, 0x00], "walk.wm")
    elif walk == "timeout-death-1":
        e1["silence"] = "timeout"
    elif walk == "timeout-death-2":
        e2["silence"] = "timeout"
    dcfg["post_exit_signer"] = e1
    dcfg["post_exit_uihb"] = e2
    arm = {}

    def fault_fn(idx, apdu):
        if arm.get("at") == idx:
            arm["fired"] = arm["kind"]
            return arm["kind"]
        return None
    w = World(ch, device_cfg=dcfg, seed=seed, fault_fn=fault_fn)
    dev = w.device
    _mislabel.dev = dev
    w.bring_up()
    viol = []
    answered = 0
    faulty_run = ch.draw(4, "link-faults") == 1
    # one faulty run in five: the fault is an answer that arrives after the host's time-out and stays
    # queued on the handle (sim/hidlink.py `timeout_late`).  Whatever goes wrong while such an answer
    # is still on the handle (no re-open since) is one finding, reported under one signature
    late_run = faulty_run and ch.draw(5, "late-answer-run") == 1
    stale = {}

    def is_stale():
        return "handles" in stale and w.link.handles == stale["handles"]

    def bad(sig, detail):
        if is_stale():
            detail = "%s: %s (after the late answer to exchange %s stayed on the handle)" % (
                sig, detail, stale.get("at"))
            sig = "late-answer/reply-for-an-earlier-request"
        viol.append((sig, detail))

    def ask(obj):
        """One query; in a 'faulty' run one query in four meets a link fault at one of its exchanges
        (never the one right after a fault: that one repairs the connection).  -> (reply, exception,
        excused) - excused: the fault fired and the query reported the device error, which is one of
        the two things the property allows; data, if any is returned, is still held to the device's."""
        arm.pop("fired", None)
        arm.pop("at", None)
        # (never while a repair is pending: a fault inside the repair's own onboarded check ends the
        # manager by design; the flag is only read to place the fault, not to judge anything)
        pending = getattr(w.protocol, "_comm_issue", False)
        if faulty_run and not arm.get("cooldown") and not pending and ch.draw(4, "link-fault") == 1:
            arm["at"] = w.link.index + ch.draw(10, "link-fault.at")
            arm["kind"] = ["timeout_after", "timeout_before", "read_err_after", "read_err_before",
                           "write_err", ("sw", 0x6B11), ("sw", 0x6A8F), ("sw", 0x6B87),
                           ("sw", 0x6E00), ("alter", _mislabel)][ch.draw(10, "link-fault.kind")]
            if isinstance(arm["kind"], tuple) and arm["kind"][1] == 0x6E00 and \
                    obj.get("command") in ("getPubKey",):
                arm["kind"] = ("sw", 0x6A8F)     # (a status outside the device's range ends the manager
                #                                   on getPubKey / sign by design: not this check's subject)
            if late_run:
                arm["kind"] = "timeout_late"
        rep, exc = w.request(obj)
        fired = arm.get("fired")
        if fired == "timeout_late" and not is_stale():
            stale["handles"], stale["at"] = w.link.handles, arm.get("at")
        arm.pop("at", None)
        arm["cooldown"] = bool(fired)
        # a device-side error status (injected) may be reported with whatever negative code documents it
        excused = bool(fired) and exc is None and isinstance(rep, dict) and (
            rep.get("errorcode") == -905 or (isinstance(fired, tuple) and type(rep.get("errorcode")) is int
                                             and rep.get("errorcode") < 0))
        return rep, exc, excused

    def query_round(S):
        nonlocal answered
        state, diff, flags, net, mind = S["state"], S["diff"], S["flags"], S["net"], S["mind"]
        params, hb, sr, ss = S["params"], S["hb"], S["sr"], S["ss"]
        # ---- getPubKey
        for p in ch.shuffle(PATHS, "paths"):
            rep, exc, excused = ask({"command": "getPubKey", "keyId": p, "version": 5})
            want = dev.pubkey_for(path_bytes(p)[1:] if False else path_bytes(p)).hex()
            if excused:
                continue
            if exc is not None or not isinstance(rep, dict) or rep.get("errorcode") != 0:
                bad("pubkey/failed", "%s -> %r %r" % (p, rep, exc))
            elif rep.get("pubKey") != want:
                bad("pubkey/value", "%s -> %s, device holds %s" % (p, rep.get("pubKey"), want))
            else:
                answered += 1
        # ---- blockchainState
        rep, exc, excused = ask({"command": "blockchainState", "version": 5})
        if excused:
            pass
        elif exc is not None or not isinstance(rep, dict) or rep.get("errorcode") != 0 \
                or not isinstance(rep.get("state"), dict) \
                or not isinstance(rep["state"].get("updating"), dict):
            bad("state/failed", "%r %r" % (rep, exc))
        else:
            answered += 1
            st = rep["state"]
            up = st["updating"]
            for name in ("best_block", "newest_valid_block", "ancestor_block", "ancestor_receipts_root"):
                if st.get(name) != state[name].hex():
                    bad("state/hash", "%s=%s device holds %s" % (name, st.get(name), state[name].hex()))
            for name in ("best_block", "newest_valid_block", "next_expected_block"):
                if up.get(name) != state["updating." + name].hex():
                    bad("state/hash", "updating.%s=%s device holds %s" % (
                        name, up.get(name), state["updating." + name].hex()))
            if as_uint(up.get("total_difficulty")) != int.from_bytes(diff, "big"):
                bad("state/difficulty", "total_difficulty=%r device holds 0x%s" % (
                    up.get("total_difficulty"), diff.hex()))
            for i, name in enumerate(("in_progress", "already_validated", "found_best_block")):
                if up.get(name) is not bool(flags[i]):
                    bad("state/flag", "%s=%r device flag bytes %s" % (name, up.get(name), flags.hex()))
        # ---- blockchainParameters
        rep, exc, excused = ask({"command": "blockchainParameters", "version": 5})
        if excused:
            pass
        elif exc is not None or not isinstance(rep, dict) or rep.get("errorcode") != 0 \
                or not isinstance(rep.get("parameters"), dict):
            bad("params/failed", "%r %r" % (rep, exc))
        else:
            answered += 1
            pr = rep["parameters"]
            if pr.get("checkpoint") != params["checkpoint"].hex():
                bad("params/checkpoint", "%r" % (pr.get("checkpoint"),))
            if as_uint(pr.get("minimum_difficulty")) != mind:
                bad("params/min-difficulty", "%r device holds %d" % (pr.get("minimum_difficulty"), mind))
            if pr.get("network") != NETWORKS[net]:
                bad("params/network", "%r device network %d" % (pr.get("network"), net))
        # ---- signerHeartbeat
        ud = ch.bytes(16, "ud.signer")
        # (hex digits of the user-defined value in either case: the value is the bytes)
        udhex = ud.hex().upper() if ch.draw(3, "ud.signer.uppercase") == 1 else ud.hex()
        rep, exc, excused = ask({"command": "signerHeartbeat", "udValue": udhex, "version": 5})
        h = hb["signer"]
        if excused:
            pass
        elif exc is not None or not isinstance(rep, dict) or rep.get("errorcode") != 0:
            bad("shb/failed", "%r %r" % (rep, exc))
        else:
            answered += 1
            wantmsg = (h["msg_prefix"] + h["msg_tail"] + ud).hex()
            if rep.get("pubKey") != h["pubkey"].hex() or rep.get("message") != wantmsg \
                    or rep.get("tweak") != h["app_hash"].hex() \
                    or rep.get("signature") != {"r": sr, "s": ss}:
                bad("shb/value", "reply %r" % (rep,))

    query_round(S)
    # ---- history: the device's state changes during the manager's life
    change = ch.weighted([(2, "none"), (2, "advanced"), (2, "swapped")], "state-change")
    if change == "advanced":
        # the blockchain state moved on (hashes, difficulty, flags); same device
        S2 = draw_state(ch, ch.bytes(6, "devseed2"))
        S = dict(S, state=S2["state"], diff=S2["diff"], flags=S2["flags"], dclass=S2["dclass"])
        dev.state = S["state"]
        query_round(S)
    elif change == "swapped":
        # the device is replaced / re-onboarded: other keys, parameters, heartbeat material; the
        # open handle dies, one request gets the device error, the next one reconnects
        seed2 = ch.bytes(6, "devseed2")
        S = draw_state(ch, seed2)
        dev.seed = seed2
        dev.state, dev.params, dev.hb = S["state"], S["params"], S["hb"]
        if w.link.open_handle is not None:
            w.link.open_handle.opened = False
        repair_pending = getattr(w.protocol, "_comm_issue", False)
        rep, exc = w.request({"command": "blockchainState", "version": 5})
        if repair_pending and exc is None and isinstance(rep, dict) and rep.get("errorcode") == 0:
            pass          # a repair was already due (injected link failure): this request reconnected
        elif exc is not None or not isinstance(rep, dict) or rep.get("errorcode") != -905:
            bad("swap/first-request", "after the device swap the first request answered %r %r"
                % (rep, exc))
        query_round(S)
    hb, ur, us = S["hb"], S["ur"], S["us"]
    dclass, flags, net, sshape, ushape = S["dclass"], S["flags"], S["net"], S["sshape"], S["ushape"]
    # ---- uiHeartbeat walk (starts from a healthy connection: a repair still due after an injected
    # link failure is carried out by one more query first)
    if getattr(w.protocol, "_comm_issue", False):
        w.request({"command": "getPubKey", "keyId": PATHS[0], "version": 5})
    if walk == "start-in-uihb":
        dev.mode = L.MODE_UI_HEARTBEAT
    if walk == "mode-byte-ff":
        dev.cfg["mode_byte"] = 0xFF
    start_mode = dev.mode
    ud = ch.bytes(32, "ud.ui")
    t0 = w.clock.now
    udhex = ud.hex().upper() if ch.draw(3, "ud.ui.uppercase") == 1 else ud.hex()
    rep, exc = w.request({"command": "uiHeartbeat", "udValue": udhex, "version": 5})
    h = hb["ui"]
    # let a slow device finish booting before looking at where it ended up
    w.clock.advance(60.0)
    end_mode = dev.mode if dev.present() else None
    if exc is not None:
        bad("uihb/exception", "%s: %s" % (type(exc).__name__, exc))
    elif not isinstance(rep, dict) or type(rep.get("errorcode")) is not int:
        bad("uihb/malformed", "%r" % (rep,))
    elif rep["errorcode"] == 0:
        wantmsg = (h["msg_prefix"] + ud + h["msg_tail"]).hex()
        if rep.get("pubKey") != h["pubkey"].hex() or rep.get("message") != wantmsg \
                or rep.get("tweak") != h["app_hash"].hex() \
                or rep.get("signature") != {"r": ur, "s": us}:
            bad("uihb/value", "reply %r" % (rep,))
        if end_mode != start_mode:
            bad("uihb/mode", "success reported but device started in mode %r and ended in %r "
                "(walk %s)" % (start_mode, end_mode, walk))
        answered += 1
    elif rep["errorcode"] != -905:
        bad("uihb/code", "errorcode %d (walk %s)" % (rep["errorcode"], walk))
    elif walk in ("benign", "start-in-uihb"):
        bad("uihb/spurious-error", "benign walk answered -905")
    stt = (dclass, flags.hex(), net, sshape, ushape, walk, change)
    return {"violations": viol, "digest": w.log.digest(), "state": stt,
            "nontrivial": answered >= 9, "faults": dict(w.link.stats.faults),
            "probes": {"walk." + walk: 1, "state_change." + change: 1}, "sim_s": w.clock.elapsed - 60.0,
            "sample": {"difficulty": diff.hex(), "flags": flags.hex(), "network": net,
                       "min_difficulty": mind, "walk": walk, "exit1": e1, "exit2": e2,
                       "uiHeartbeat_reply": rep, "end_mode": end_mode}}


def _m(owner_path, name, old, new, count=1):
    def apply():
        import importlib
        modname, _, clsname = owner_path.rpartition(".")
        try:
            owner = importlib.import_module(owner_path)
        except ImportError:
            owner = getattr(importlib.import_module(modname), clsname)
        return patch_function(owner, name, old, new, count)
    return apply


def _swap_selectors():
    import ledger.hsm2dongle as m
    hv = m._GetState.HASH_VALUES
    orig = dict(hv)
    hv["updating.best_block"], hv["updating.newest_valid_block"] = 0x82, 0x81

    def undo():
        hv.clear()
        hv.update(orig)
    return undo


D = "ledger.hsm2dongle.HSM2Dongle"
P = "ledger.protocol.HSM2ProtocolLedger"
MUTANTS = {
    "state-selectors-swapped": _swap_selectors,
    "difficulty-little-endian": _m(D, "get_blockchain_state",
                                   'result[self.OFF.DATA:], byteorder="big"',
                                   'result[self.OFF.DATA:], byteorder="little"'),
    "flags-swapped": _m(P, "_blockchain_state",
                        '"in_progress": state["updating.in_progress"]',
                        '"in_progress": state["updating.already_validated"]'),
    "state-names-swapped": _m(P, "_blockchain_state",
                              '"ancestor_block": state["ancestor_block"]',
                              '"ancestor_block": state["ancestor_receipts_root"]'),
    "min-difficulty-truncated": _m("ledger.parameters.HSM2FirmwareParameters", "from_dongle_format",
                                   "param_bytes[32:68]", "param_bytes[36:68]"),
    "network-upper": _m(P, "_get_blockchain_parameters",
                        "params.network.name.lower()", "params.network.name"),
    "shb-tweak-is-pubkey": _m("ledger.hsm2dongle_cmds.signer_heartbeat.HSM2SignerHeartbeat", "run",
                              '"tweak": signer_hash.hex()', '"tweak": public_key.hex()'),
    "uihb-r-s-swapped": _m(P, "_ui_heartbeat",
                           '"r": heartbeat["signature"].r,\n "s": heartbeat["signature"].s',
                           '"r": heartbeat["signature"].s,\n "s": heartbeat["signature"].r'),
    "uihb-final-mode-unchecked": _m(P, "_ui_heartbeat",
                                    "if new_mode != self.hsm2dongle.MODE.SIGNER:", "if False:"),
    "uihb-no-return-to-signer": _m(
        P, "_ui_heartbeat",
        'heartbeat = self.hsm2dongle.get_ui_heartbeat(request["udValue"])',
        'heartbeat = self.hsm2dongle.get_ui_heartbeat(request["udValue"]); '
        'initial_mode = self.hsm2dongle.MODE.UI_HEARTBEAT'),
    "pubkey-drops-first-byte": _m(D, "get_public_key",
                                  "return publicKey.hex()", "return publicKey[1:].hex()"),
    "der-r-strip-leading-zero": _m("ledger.signature.HSM2DongleSignature", "__init__",
                                   "self._r = rbytes.hex()", "self._r = rbytes.lstrip(b'\\x00').hex()"),
}

if __name__ == "__main__":
    import checks.c13 as _me
    batch.main(_me)
