"""C15 - attestations gathered from a genuine device verify end to end.

Multi-process pipeline simulation: for one simulated genuine device the operator
runs onboard, attestation, pubkeys and verify_attestation (Ledger) or
attestation, pubkeys, verify_attestation (SGX) as successive tool processes over
the simulated link, file system, operator, entropy and clock.  Fault-free and
fault-injecting configurations are separate classes of runs."""
import json

from sim import boot
boot.boot()

from sim import batch                                   # noqa: E402
from sim.choices import Choices                         # noqa: E402
from sim.mutate import patch_function                   # noqa: E402
from sim.devices.ledger_admin import ORDERED_PATHS, path_binary   # noqa: E402
from refs import att_ledger, att_sgx, sgxpki            # noqa: E402
from checks import attcommon as A                       # noqa: E402
from checks.c06 import alter_bytes, flip                # noqa: E402

from admin.certificate import HSMCertificate            # noqa: E402

PROPERTY = "C15"
LEVEL = "exploration"
RULE = ("one run = one simulated genuine device (per-run issuer / device / attestation / wallet keys, "
        "UI and signer hashes, UD value, blockchain state; UI message paged 1..4; signer message in "
        "current and legacy framing; SGX: QE auth data 0..1000 bytes, PEM chains of 2..3 certificates) "
        "taken through the full tool pipeline (a third of the Ledger runs gather the attestation a second "
        "time, from the setup certificate or from the previous attestation certificate); class fault-free: "
        "every tool must exit 0, every written "
        "file must load back to the same dictionary and verification must print exactly the device's "
        "values; class faulted: one device answer altered at a drawn exchange of gathering (bit flip / "
        "byte replaced / truncated / extended), or the root of trust altered, or one stored certificate "
        "field altered - then gathering or verification must fail unless the reference verifier shows "
        "that no attested value changed; non-trivial = verification was reached; distinct = (platform, "
        "class, alteration site, framing / paging, outcome)")
TIERS = {"quick": {"runs": 6000, "wall": 240}, "thorough": {"runs": 100000, "wall": 3000}}
MUTANT_RUNS = 1500
MUTANT_WALL = 150
COMPONENTS = {
    "real": ["adm_ledger.main / adm_sgx.main", "admin.onboard", "admin.ledger_attestation",
             "admin.sgx_attestation", "admin.pubkeys", "admin.unlock", "admin.dongle_admin",
             "admin.verify_ledger_attestation", "admin.verify_sgx_attestation",
             "admin.attestation_utils", "admin.certificate_v1 / _v2", "sgx.envelope", "comm.cstruct",
             "ledger.hsm2dongle (+ powhsm_attestation command)", "sgx.hsm2dongle",
             "ledgerblue HID / TCP transports", "cryptography, secp256k1, ecdsa as used by the code"],
    "stub": ["genuine device models (Ledger UI / BOLOS / Signer, SGX enclave + simulated Intel PKI)",
             "device link", "file system", "operator", "entropy", "clock"],
}
ASSUMPTIONS = [
    "an alteration that changes no attested value and leaves every signature valid (e.g. a paging flag "
    "that re-pages the same bytes) need not make anything fail: decided through the reference verifiers",
]


def genuine_values_ledger(dev, ud):
    btc33 = dev.wallet_key(path_binary(ORDERED_PATHS[0])).pub33
    v = {"ui_ud": ud.hex(), "ui_pubkey": btc33.hex(), "ui_signer_hash": dev.signer_hash.hex(),
         "ui_signer_iteration": str(dev.signer_iteration), "ui_hash": dev.ui_hash.hex(),
         "ui_version": "5.4", "keys_hash": dev.keys_hash().hex(), "signer_hash": dev.signer_hash.hex(),
         "signer_version": "5.4"}
    if not dev.legacy_signer:
        v.update({"platform": "led", "ud": ud.hex(), "best_block": dev.best_block.hex(),
                  "last_tx": dev.last_tx.hex(), "timestamp": "0"})
    return v


def genuine_values_sgx(dev, info, ud):
    return {"keys_hash": dev.keys_hash().hex(), "mrenclave": info["mrenclave"].hex(),
            "mrsigner": info["mrsigner"].hex(), "powhsm_version": "5.4", "platform": "sgx",
            "ud": ud.hex(), "best_block": dev.best_block.hex(), "last_tx": dev.last_tx.hex(),
            "timestamp": "0"}


def roundtrip_ok(w, path):
    """from_jsonfile(to file) equality of dictionaries."""
    stored = A.load_json(w, path)
    try:
        cert = HSMCertificate.from_jsonfile(path)
    except Exception as e:
        return "file written by the tool does not load back: %s" % e
    if cert.to_dict() != stored:
        return "loaded certificate differs from the stored one"
    return None


def run_one(ch, cfg):
    platform = ["ledger", "sgx"][ch.draw(2, "platform")]
    faulted = ch.draw(3, "faulted") != 0
    site = None
    ud = ch.bytes(32, "ud")
    viol = []
    stages = {}
    if platform == "ledger":
        w, dev = A.ledger_world(ch)
        root_hex = dev.issuer.pub65.hex()
    else:
        w, dev, info = A.sgx_world(ch)
    if faulted:
        site = ch.weighted([(4, "link"), (2, "stored"), (1, "root")], "fault.site")
    if faulted and site == "link":
        target = ch.draw(170 if platform == "ledger" else 50, "link.exchange")
        how = ch.draw(1 << 30, "link.alter-seed")

        def fault_fn(i, apdu, target=target):
            if i == target:
                return ("alter", lambda b: alter_bytes(b, Choices(seed=how), "link"))
            return None
        w.link.fault_fn = fault_fn
    # ---- gathering
    if platform == "ledger":
        stages["onboard"] = A.onboard(w, dev)[0]
        if stages["onboard"] == 0:
            stages["attestation"], out = A.attestation(w, dev, ud.hex())
            # history: the attestation is gathered again later (new user-defined value), starting from
            # the setup certificate or from the previous attestation certificate itself
            if stages["attestation"] == 0 and ch.draw(3, "gathered-again") == 1:
                ud = ch.bytes(32, "ud.again")
                src = ch.pick([A.ATT2, A.ATT1], "gathered-again.from")
                stages["attestation-again"], out = A.attestation(w, dev, ud.hex(), cert_in=src)
        certfile = A.ATT2
    else:
        stages["attestation"], out = A.sgx_attestation(w, dev, ud.hex())
        certfile = A.SGX_ATT
    w.link.fault_fn = None
    gathered = all(v == 0 for v in stages.values()) and "attestation" in stages
    if gathered:
        stages["pubkeys"] = (A.pubkeys(w, dev) if platform == "ledger" else A.sgx_pubkeys(w, dev))[0]
    vout = ""
    if gathered and stages.get("pubkeys") == 0:
        err = roundtrip_ok(w, certfile)
        if err and not faulted:
            viol.append(("files/roundtrip", "%s: %s" % (platform, err)))
        if platform == "ledger":
            err1 = roundtrip_ok(w, A.ATT1)
            if err1 and not faulted:
                viol.append(("files/roundtrip", "attestation setup certificate: %s" % err1))
        if faulted and site == "stored":
            doc = A.load_json(w, certfile)
            e = doc["elements"][ch.draw(len(doc["elements"]), "stored.elem")]
            fields = [f for f in ("message", "signature", "tweak", "key", "auth_data", "custom_data")
                      if f in e and e.get("type") != "x509_pem"]
            if fields:
                f = fields[ch.draw(len(fields), "stored.field")]
                if f == "signature" and platform == "ledger" and ch.draw(2, "stored.malleate") == 1:
                    # the well-known tolerant re-readings of a DER signature (tag 0x31, high S, padded
                    # integers, trailing bytes, long-form lengths)
                    from checks.c06 import malleate_signature
                    e[f] = malleate_signature(bytes.fromhex(e[f]), ch, "stored")[0].hex()
                elif f == "tweak" and ch.draw(2, "stored.zero-bytes") == 1:
                    # the tweak is an HMAC key: with zero bytes appended (or a trailing zero byte
                    # removed) it is the same key, so the signatures still verify
                    e[f] = e[f][:-2] if e[f].endswith("00") and len(e[f]) > 2 \
                        else e[f] + "00" * (1 + ch.draw(4, "stored.zeros"))
                else:
                    e[f] = flip(bytes.fromhex(e[f]), ch, "stored").hex()
                site = "stored:%s.%s" % (e["name"], f)
            else:
                import base64
                raw = base64.b64decode(e["message"])
                e["message"] = base64.b64encode(flip(raw, ch, "stored")).decode()
                site = "stored:%s.der" % e["name"]
            w.fs.put(certfile, json.dumps(doc).encode())
        if faulted and site == "root":
            if platform == "ledger":
                root_hex = flip(dev.issuer.pub65, ch, "root").hex()
            else:
                w.fs.put(A.SGX_ROOT, sgxpki.pem(flip(info["pki"].root_der, ch, "root")).encode())
        if platform == "ledger":
            stages["verify"], vout = A.verify(w, root_hex)
        else:
            stages["verify"], vout = A.sgx_verify(w)
    w.entropy_on = False
    desc = "%s %s site=%s stages=%s" % (platform, "faulted" if faulted else "fault-free", site, stages)
    printed = A.parse_verify_output(vout)
    want = genuine_values_ledger(dev, ud) if platform == "ledger" else genuine_values_sgx(dev, info, ud)
    if not faulted:
        bad = [k for k, v in stages.items() if v != 0]
        if bad or "verify" not in stages:
            viol.append(("pipeline/genuine-failed:%s" % (bad[0] if bad else "verify"),
                         desc + " | " + (vout or out)[-300:]))
        else:
            for k, v in want.items():
                if printed.get(k) != v:
                    viol.append(("verify/printed-value:%s" % k,
                                 "%s: verification printed %s=%r, device holds %r"
                                 % (platform, k, printed.get(k), v)))
    elif stages.get("verify") == 0:
        # success after an alteration is only legitimate if nothing attested changed
        stored = A.load_json(w, certfile)
        changed = [k for k, v in want.items() if printed.get(k) != v]
        if platform == "ledger":
            rc = att_ledger.load(stored)
            ok = rc is not None and att_ledger.parse_pubkey(bytes.fromhex(root_hex)) is not None
            if ok:
                r = att_ledger.validate(rc, bytes.fromhex(root_hex))
                ok = all(r.get(t, (False,))[0] for t in ("ui", "signer"))
        else:
            rc = att_sgx.load(stored)
            ok = rc is not None
            if ok:
                import base64
                pem_txt = w.fs.files[A.SGX_ROOT].decode()
                der = base64.b64decode("".join(pem_txt.strip().split("\n")[1:-1]))
                r = att_sgx.validate(rc, der, w.clock.now)
                ok = r.get("quote", (False,))[0]
        same_root = False
        if site == "root":
            # an altered root may still denote the same key (e.g. 0x04 -> 0x06/0x07: the hybrid SEC1
            # encoding of the same point); only then may verification keep succeeding
            if platform == "ledger":
                g = att_ledger.parse_pubkey(dev.issuer.pub65)
                a = att_ledger.parse_pubkey(bytes.fromhex(root_hex))
                same_root = a is not None and a.x() == g.x() and a.y() == g.y()
            else:
                try:
                    x = att_sgx.X509(der)
                    same_root = att_sgx.x509_valid(x, x, w.clock.now) and \
                        x.vk.to_string() == info["pki"].root_sk.verifying_key.to_string()
                except Exception:
                    same_root = False
        if site == "root" and not same_root:
            viol.append(("verify/accepted-altered-root", desc))
        elif changed:
            viol.append(("verify/accepted-altered-values", desc + " changed: %s" % changed))
        elif not ok:
            viol.append(("verify/accepted-invalid-chain", desc))
    st = (platform, faulted, site, locals().get("target") if site == "link" else None,
          getattr(dev, "legacy_signer", None), getattr(dev, "ui_page", None),
          getattr(dev, "signer_page", None), getattr(dev, "page", None),
          (len(info["qe_auth"]), info["include_root"]) if platform == "sgx" else None,
          tuple(sorted(stages.items())))
    return {"violations": viol, "digest": w.log.digest(), "state": st,
            "nontrivial": "verify" in stages, "faults": dict(w.link.stats.faults),
            "probes": {"platform." + platform: 1, "faulted": int(faulted),
                       "verify_ok": int(stages.get("verify") == 0),
                       "gathering_failed": int(not gathered),
                       "survived_alteration": int(faulted and stages.get("verify") == 0)},
            "sim_s": w.clock.elapsed,
            "sample": {"platform": platform, "faulted": faulted, "site": site, "stages": stages,
                       "printed": printed}}


def _m(owner_path, name, old, new, count=1):
    def apply():
        import importlib
        modname, _, clsname = owner_path.rpartition(".")
        try:
            owner = importlib.import_module(owner_path)
        except ImportError:
            owner = getattr(importlib.import_module(modname), clsname)
        return patch_function(owner, name, old, new, count)
    return apply


MUTANTS = {
    "ui-message-last-page-dropped": _m(
        "ledger.hsm2dongle.HSM2Dongle", "get_ui_attestation",
        "message += response[self.OFF.DATA + 1:]",
        "message += response[self.OFF.DATA + 1:] if (response[self.OFF.DATA] != 0 or page == 1) "
        "else b''"),
    "device-key-message-without-role": _m(
        "admin.dongle_admin.DongleAdmin", "get_device_key",
        "signed_data = bytes([self.ROLE.DEVICE]) + cert_header + dev_key_pub",
        "signed_data = cert_header + dev_key_pub"),
    "attestation-tweak-swapped": _m(
        "admin.ledger_attestation", "do_attestation",
        '"tweak": ui_attestation["app_hash"],', '"tweak": powhsm_attestation["app_hash"],'),
    "legacy-message-offset": _m(
        "ledger.hsm2dongle_cmds.powhsm_attestation.PowHsmAttestation", "run",
        "msgoffset = 0", "msgoffset = 1"),
    "sgx-quote-signature-s-r": _m(
        "admin.sgx_attestation", "do_attestation",
        "envelope.quote_auth_data.signature.r +\n envelope.quote_auth_data.signature.s,",
        "envelope.quote_auth_data.signature.s +\n envelope.quote_auth_data.signature.r,"),
    "sgx-certs-swapped": _m(
        "admin.sgx_attestation", "do_attestation",
        '"message": envelope.qe_cert_data.certs[0],', '"message": envelope.qe_cert_data.certs[1],'),
    "envelope-auth-data-size-big-endian": _m(
        "sgx.envelope.SgxQeAuthData", "__init__", "super().__init__(value, offset, little)",
        "super().__init__(value, offset, little if len(value) - offset < 700 else False)"),
    "verify-root-not-checked": _m(
        "admin.verify_sgx_attestation", "do_verify_attestation",
        "if not root_of_trust.is_valid(root_of_trust):", "if False:"),
    "keys-hash-unsorted": _m(
        "admin.attestation_utils", "compute_pubkeys_hash",
        "for path in sorted(pubkeys_map.keys()):", "for path in reversed(sorted(pubkeys_map.keys())):"),
}

if __name__ == "__main__":
    import checks.c15 as _me
    batch.main(_me)
