"""C08 - verify commands vouch only for the operator's keys and a well-formed
message.

Pipeline simulation up to and including `adm_ledger verify_attestation` /
`adm_sgx verify_attestation`, run as tool processes (argv, files, stdout, exit
status).  Faults are Byzantine-but-correctly-signing devices and operator-side
file mismatches; for SGX also the verifier's clock against the root's validity."""
import base64
import json

from sim import boot
boot.boot()

from sim import batch                                   # noqa: E402
from sim.mutate import patch_function                   # noqa: E402
from sim.devices.ledger_admin import Key, scalar, ORDERED_PATHS   # noqa: E402
from refs import verify_cmd as REF                      # noqa: E402
from refs import sgxpki                                 # noqa: E402
from checks import attcommon as A                       # noqa: E402

PROPERTY = "C08"
LEVEL = "exploration"
RULE = ("one run = (certificate gathered by the real tools from a simulated device that signs correctly "
        "but may deviate in ONE way, public-keys file possibly altered by the operator side, root of "
        "trust) judged by the real verify command run as a tool process and by the reference decision; "
        "deviations: foreign UI / signer header, powHSM message one byte short / long, other keys hash, "
        "keys hashed in another order, legacy vs current framing, UI message with another BTC key; "
        "operator side: one key replaced, a path renamed, BTC path missing, empty object, not an object, "
        "invalid key, compressed keys, a device authorised for another path set with the matching keys "
        "file; certificate side: target removed; the verify command asked again 0..2 times in the same "
        "process under another / the same root; root: other key / broken "
        "self-signature / expired / last second of validity (SGX, virtual clock, host time zone drawn); non-trivial = the verify command ran; distinct = "
        "(platform, deviation, operator-side alteration, root state, outcome)")
TIERS = {"quick": {"runs": 8000, "wall": 240}, "thorough": {"runs": 150000, "wall": 3000}}
MUTANT_RUNS = 1200
MUTANT_WALL = 150
COMPONENTS = {
    "real": ["adm_ledger.main / adm_sgx.main", "admin.verify_ledger_attestation",
             "admin.verify_sgx_attestation", "admin.attestation_utils", "admin.certificate_v1 / _v2",
             "gathering tools and APDU layers as in C15"],
    "stub": ["Byzantine-but-correctly-signing device models", "operator (files, argv)", "file system",
             "clock", "link"],
}
ASSUMPTIONS = [
    "headers with an arbitrary character in place of the version dot are not generated (the documents "
    "give literal headers; the code's regular expression is laxer there)",
    "the clock does not move during one verification",
]

DEVIATIONS = ["none", "ui-header", "signer-header", "one-short", "one-long", "other-hash",
              "other-order", "ui-other-btc-key", "none", "none", "signer-other-ud"]
KEYS_ALT = ["none", "none", "none", "replace-one", "rename-path", "rename-keeping-order",
            "drop-btc", "empty", "not-object", "invalid-key", "compressed", "extra-key",
            "other-wallet-paths", "other-wallet-paths", "extra-key-respelled-path"]
ROOT_ALT = ["none", "none", "none", "other", "broken-self-signature", "expired", "last-second"]


def run_one(ch, cfg):
    platform = ["ledger", "sgx"][ch.draw(2, "platform")]
    deviation = DEVIATIONS[ch.draw(len(DEVIATIONS), "device-deviation")]
    keys_alt = KEYS_ALT[ch.draw(len(KEYS_ALT), "keys-file")]
    root_alt = ROOT_ALT[ch.draw(len(ROOT_ALT), "root")]
    drop_target = ch.draw(8, "drop-target") == 1
    byz = {}
    if deviation == "ui-header" and platform == "sgx":
        deviation = "signer-header"
    if deviation == "ui-other-btc-key" and platform == "sgx":
        deviation = "other-hash"
    if deviation == "ui-header":
        byz["ui_header"] = ch.pick([b"HSM:UX:5.4", b"XSM:UI:5.4", b"HSM:UI:6.0", b"HSM:UI:9.9",
                                    b"hsm:ui:5.4"], "ui-header")
    elif deviation == "signer-header":
        byz["signer_header"] = ch.pick([b"POWHSM:6.0::", b"XOWHSM:5.4::", b"POWHSM:5.4:;",
                                        b"powhsm:5.4::"], "signer-header")
        byz["signer_header_legacy"] = ch.pick([b"HSM:SIGNER:6.0", b"HSM:SIGNER:9.9"], "legacy-header")
    elif deviation == "one-short":
        byz["signer_cut"] = 1
    elif deviation == "one-long":
        byz["signer_tail"] = b"\x00"
    elif deviation == "other-hash":
        byz["keys_hash"] = ch.bytes(32, "other-hash")
    elif deviation == "other-order":
        byz["keys_order"] = list(reversed(ORDERED_PATHS))
    elif deviation == "signer-other-ud":
        # the Signer's message carries another user-defined value than the UI's (attested at another
        # time): nothing to refuse, and what is printed for each message is what that message holds
        byz["signer_ud"] = ch.bytes(32, "signer-ud")
    elif deviation == "ui-other-btc-key":
        byz["ui_btc_key"] = Key(scalar(b"otherbtc" + ch.bytes(4, "btc"))).pub33
        rel = ch.draw(4, "btc.related")
        if rel == 1:
            # the operator's key negated: the same X coordinate under the other parity byte - the
            # public key of another private key
            byz["ui_btc_key"] = lambda g: bytes([g[0] ^ 1]) + g[1:]
        elif rel == 2:
            # the genuine encoding with its last byte changed (whatever that decodes to, it is not the
            # operator's key)
            byz["ui_btc_key"] = lambda g: g[:-1] + bytes([g[-1] ^ 1])
    wallet_paths = None
    if keys_alt == "other-wallet-paths":
        if deviation == "other-order":
            keys_alt = "none"
        else:
            # a device authorised for another set of paths (index numbers of different widths, so that
            # string order and numeric order differ); it hashes its keys in the documented order:
            # lexicographic by the UTF-8 path
            nums = [1, 2, 9, 10, 11, 20, 100, 137]
            wallet_paths = {ORDERED_PATHS[0]}
            for _ in range(2 + ch.draw(5, "wallet.npaths")):
                wallet_paths.add("m/44'/%d'/%d'/0/%d" % (ch.pick(nums, "wallet.coin"),
                                                        ch.pick([0, 1, 2, 10], "wallet.acct"),
                                                        ch.pick([0, 0, 1, 12], "wallet.idx")))
            wallet_paths = sorted(wallet_paths)
            byz["keys_order"] = list(wallet_paths)
    ud = ch.bytes(32, "ud")
    viol = []
    if platform == "ledger":
        w, dev = A.ledger_world(ch, onboarded=True, extra_cfg={"byzantine": byz, "endorsed": True})
        # a device that is already onboarded and endorsed: gather UI + signer attestations
        att1 = _setup_certificate(dev)
        w.fs.put(A.ATT1, json.dumps(att1).encode())
        st, out = A.attestation(w, dev, ud.hex())
        certfile = A.ATT2
        root_hex = dev.issuer.pub65.hex()
    else:
        # one genuine run in three has a digest that ends in a zero byte: the one the quote commits to
        # (over the powHSM message) or the one the QE report commits to (attestation key || auth data)
        zt = ch.draw(6, "sgx.digest-zero-tail")
        w, dev, info = A.sgx_world(ch, extra_cfg={"byzantine": byz}, qe_digest_zero_tail=(zt == 2))
        if zt == 1:
            import hashlib as _h
            for n in range(1 << 16):
                cand = ud[:-2] + n.to_bytes(2, "big")
                if _h.sha256(dev.powhsm_message(cand)).digest()[-1] == 0:
                    ud = cand
                    break
        st, out = A.sgx_attestation(w, dev, ud.hex())
        certfile = A.SGX_ATT
    if st != 0:
        w.entropy_on = False
        viol.append(("harness/gathering-failed", "%s: %s" % (platform, out[-300:])))
        return _res(viol, w, (platform, "gather-failed"), False, {}, {})
    st, out = (A.pubkeys(w, dev) if platform == "ledger" else A.sgx_pubkeys(w, dev))
    if st != 0:
        w.entropy_on = False
        viol.append(("harness/pubkeys-failed", "%s: %s" % (platform, out[-300:])))
        return _res(viol, w, (platform, "pubkeys-failed"), False, {}, {})
    # ---- operator-side alterations
    keys = A.load_json(w, A.KEYS_JSON)
    if keys_alt == "replace-one":
        p = ch.pick(sorted(keys), "keys.which")
        keys[p] = Key(scalar(b"repl" + ch.bytes(4, "keys.repl"))).pub65.hex()
    elif keys_alt == "rename-path":
        p = ch.pick(sorted(keys), "keys.which")
        keys["m/44'/999'/0'/0/%d" % ch.draw(3, "keys.newidx")] = keys.pop(p)
    elif keys_alt == "rename-keeping-order":
        keys["m/44'/137'/9'/0/0"] = keys.pop("m/44'/137'/1'/0/0")
    elif keys_alt == "drop-btc":
        keys.pop("m/44'/0'/0'/0/0")
    elif keys_alt == "empty":
        keys = {}
    elif keys_alt == "not-object":
        keys = ch.pick([[], "x", 5, None, [keys]], "keys.notobj")
    elif keys_alt == "invalid-key":
        p = ch.pick(sorted(keys), "keys.which")
        keys[p] = ch.pick(["zz", "04" + "00" * 64, "", 5, keys[p][:-2]], "keys.invalid")
    elif keys_alt == "compressed":
        from refs import att_ledger
        for p in list(keys):
            pt = att_ledger.parse_pubkey(bytes.fromhex(keys[p]))
            keys[p] = (bytes([2 + (pt.y() & 1)]) + pt.x().to_bytes(32, "big")).hex()
    elif keys_alt == "other-wallet-paths":
        from sim.devices.ledger_admin import path_binary
        keys = {p: dev.pubkey_for(path_binary(p)).hex() for p in ch.shuffle(wallet_paths, "wallet.order")}
    elif keys_alt == "extra-key":
        keys["m/44'/0'/0'/0/1"] = Key(scalar(b"extra" + ch.bytes(4, "keys.extra"))).pub65.hex()
    elif keys_alt == "extra-key-respelled-path":
        # a seventh key under a name that is one of the six paths spelled differently (leading zeros,
        # other decimal digits): a different name, hence a different key set - listed before or after
        # the genuine entry
        p = ch.pick(sorted(keys), "keys.which")
        comps = p.split("/")
        j = ch.pick([5, 2, 1, 3], "respell.component")
        num, tick = comps[j].rstrip("'"), "'" if comps[j].endswith("'") else ""
        comps[j] = ch.pick(["0" + num, "00" + num, "".join(chr(0x0660 + int(c)) for c in num),
                            "".join(chr(0xFF10 + int(c)) for c in num)], "respell.how") + tick
        extra = {"/".join(comps): Key(scalar(b"respelled" + ch.bytes(4, "keys.extra"))).pub65.hex()}
        keys = dict(list(extra.items()) + list(keys.items())) if ch.draw(2, "respell.first") == 0 \
            else dict(list(keys.items()) + list(extra.items()))
    w.fs.put(A.KEYS_JSON, json.dumps(keys).encode())
    doc = A.load_json(w, certfile)
    if drop_target and len(doc["targets"]) > 0:
        doc["targets"] = doc["targets"][1:]
        w.fs.put(certfile, json.dumps(doc).encode())
    if platform == "ledger" and ch.draw(8, "app-hash-zero-bytes") == 1:
        # the UI / Signer hash (the element's tweak) with zero bytes appended or a trailing zero byte
        # removed: as an HMAC key it is the same key, so every signature still verifies - the hash the
        # tool would vouch for is not the device's any more
        tw = [e for e in doc["elements"] if e.get("tweak")]
        if tw:
            e = tw[ch.draw(len(tw), "app-hash.which")]
            e["tweak"] = e["tweak"] + "00" * (1 + ch.draw(3, "app-hash.zeros")) \
                if not e["tweak"].endswith("00") or ch.draw(2, "app-hash.append") else e["tweak"][:-2]
            w.fs.put(certfile, json.dumps(doc).encode())
    own_root = False
    if platform == "sgx" and ch.draw(6, "own-root-in-certificate") == 1:
        # the attestation file brings its own root along, under the reserved name of the root of
        # trust, while the operator chose another root authority: the operator's root decides
        import base64
        own_root = True
        root_alt = "other"
        doc["elements"].insert(ch.draw(len(doc["elements"]) + 1, "own-root.pos"), {
            "name": "sgx_root", "type": "x509_pem", "signed_by": "sgx_root",
            "message": base64.b64encode(info["pki"].root_der).decode()})
        w.fs.put(certfile, json.dumps(doc).encode())
    # ---- root
    if platform == "ledger":
        if root_alt == "other":
            root_hex = Key(scalar(b"otherroot" + ch.bytes(4, "root"))).pub65.hex()
        elif root_alt == "broken-self-signature":
            root_hex = ch.pick(["zz", "", "04" + "11" * 64, root_hex[:-2]], "root.invalid")
        elif root_alt in ("expired", "last-second"):
            root_alt = "none"
        st, out = A.verify(w, root_hex)
        ref = REF.ledger(doc, keys, root_hex)
    else:
        pki = info["pki"]
        root_der = pki.root_der
        if root_alt == "other":
            root_der = sgxpki.Pki(b"o" + ch.bytes(4, "root"), w.clock.now).root_der
        elif root_alt == "broken-self-signature":
            # the platform CA's key signs nothing here: a root whose signature is by another key
            stranger = sgxpki.sk_from(b"stranger" + ch.bytes(4, "root"))
            root_der = sgxpki.make_cert("Sim SGX Root CA", pki.root_sk.verifying_key, "Sim SGX Root CA",
                                        stranger, w.clock.now - 86400 * 400, w.clock.now + 86400 * 4000)
        elif root_alt == "expired":
            w.clock.now = w.clock.now + pki.windows["root"][1] + ch.pick([1, 86400], "root.after")
        elif root_alt == "last-second":
            # the PCK certificate is in the last second of its validity (the chain is still valid)
            w.clock.now = pki.now + pki.windows["leaf"][1] - 1
        # validity periods are instants: the verifier host's local time zone must not matter
        w.tz_offset = ch.pick([0, 0, -5 * 3600, 9 * 3600, 13 * 3600, -8 * 3600, 19800], "host-time-zone")
        w.fs.put(A.SGX_ROOT, sgxpki.pem(root_der).encode())
        st, out = A.sgx_verify(w)
        ref = REF.sgx(doc, keys, root_der, w.clock.now)
    # ---- history: the same verifier process is asked again about the same files under another root of
    # trust (and the first one again): each verdict depends on its own inputs only
    again = []
    for j in range(ch.draw(3, "verify-again")):
        which = ch.pick(["other-root", "same"], "again.root")
        if platform == "ledger":
            r2 = Key(scalar(b"againroot" + bytes([j]))).pub65.hex() if which == "other-root" else root_hex
            st2, out2 = A.verify(w, r2)
            ref2 = REF.ledger(doc, keys, r2)
        else:
            d2 = sgxpki.Pki(b"again" + bytes([j]), w.clock.now).root_der if which == "other-root" \
                else root_der
            w.fs.put(A.SGX_ROOT, sgxpki.pem(d2).encode())
            st2, out2 = A.sgx_verify(w)
            ref2 = REF.sgx(doc, keys, d2, w.clock.now)
        again.append((which, st2, ref2))
    w.entropy_on = False
    printed = A.parse_verify_output(out)
    desc = "%s device-deviation=%s keys-file=%s root=%s%s drop-target=%s -> exit %s; reference %s" % (
        platform, deviation, keys_alt, root_alt, "+own-root-in-certificate" if own_root else "",
        drop_target, st,
        "success" if ref[0] else "failure(%s)" % ref[1])
    if ref[0] and st != 0:
        viol.append(("verify/rejected-valid", desc + " | " + out[-240:]))
    if not ref[0] and st == 0:
        viol.append(("verify/accepted:%s" % ref[1], desc))
    if ref[0] and st == 0:
        for k, v in ref[1].items():
            if v is not None and printed.get(k) != v:
                viol.append(("verify/printed-value:%s" % k,
                             desc + " printed %r, signed message holds %r" % (printed.get(k), v)))
    for j, (which, st2, ref2) in enumerate(again):
        if ref2[0] != (st2 == 0):
            viol.append(("history/verified-again:%s" % ("accepted" if st2 == 0 else "rejected"),
                         desc + "; asked again (call %d) under %s root: exit %s, reference %s" % (
                             j + 2, which, st2, "success" if ref2[0] else "failure(%s)" % ref2[1])))
            break
    return _res(viol, w, (platform, deviation, keys_alt, root_alt, drop_target, st == 0), True,
                {"platform." + platform: 1, "ref.success": int(ref[0]),
                 "ref.fail." + (ref[1] if not ref[0] else "-"): 1, "exit.%s" % st: 1},
                {"platform": platform, "device_deviation": deviation, "keys_file": keys_alt,
                 "root": root_alt, "target_dropped": drop_target, "exit_status": st,
                 "reference": "success" if ref[0] else ref[1],
                 "stdout_tail": out[-200:]})


def _setup_certificate(dev):
    """What `onboard` would have written for this (already endorsed) device."""
    att = dev.att_key
    dmsg = b"\x02" + dev.cert_header + dev.device_key.pub65
    amsg = b"\xff" + att.pub65
    return {"version": 1, "targets": ["attestation"], "elements": [
        {"name": "attestation", "message": amsg.hex(), "signature": dev.device_key.sign(amsg).hex(),
         "signed_by": "device"},
        {"name": "device", "message": dmsg.hex(), "signature": dev.issuer.sign(dmsg).hex(),
         "signed_by": "root"}]}


def _res(viol, w, state, nontrivial, probes, sample):
    return {"violations": viol, "digest": w.log.digest(), "state": state, "nontrivial": nontrivial,
            "faults": dict(w.link.stats.faults), "probes": probes,
            "sim_s": min(w.clock.elapsed, 1000.0), "sample": sample}


def _m(owner_path, name, old, new, count=1):
    def apply():
        import importlib
        modname, _, clsname = owner_path.rpartition(".")
        try:
            owner = importlib.import_module(owner_path)
        except ImportError:
            owner = getattr(importlib.import_module(modname), clsname)
        return patch_function(owner, name, old, new, count)
    return apply


VL = "admin.verify_ledger_attestation"
VS = "admin.verify_sgx_attestation"
MUTANTS = {
    "ui-key-not-compared": _m(VL, "do_verify_attestation",
                              "if ui_public_key != expected_ui_public_key:", "if False:"),
    "ledger-keys-hash-not-compared": _m(VL, "do_verify_attestation",
                                        "if reported_pubkeys_hash != pubkeys_hash:", "if False:"),
    "sgx-keys-hash-not-compared": _m(VS, "do_verify_attestation",
                                     "if reported_pubkeys_hash != pubkeys_hash:", "if False:"),
    "powhsm-length-unchecked": _m(
        "admin.attestation_utils.PowHsmAttestationMessage", "__init__",
        "if len(value[offset:]) != expected_length:", "if len(value[offset:]) < expected_length:"),
    "ud-value-offset": _m(VL, "do_verify_attestation",
                          "ud_value = ui_message[mh_len:mh_len + UD_VALUE_LENGTH].hex()",
                          "ud_value = ui_message[mh_len + 1:mh_len + 1 + UD_VALUE_LENGTH].hex()"),
    "best-block-from-ud": _m(
        "admin.attestation_utils.PowHsmAttestationMessage", "__init__",
        "self.platform = self.platform.decode(\"ASCII\")",
        "self.platform = self.platform.decode(\"ASCII\"); self._parsed[self._atrmap(little)"
        "['best_block']] = self.ud_value"),
    "sgx-root-self-check-skipped": _m(VS, "do_verify_attestation",
                                      "if not root_of_trust.is_valid(root_of_trust):", "if False:"),
    "mrenclave-printed-from-mrsigner": _m(
        VS, "do_verify_attestation",
        'f"Installed powHSM MRENCLAVE: {sgx_quote.report_body.mrenclave.hex()}",',
        'f"Installed powHSM MRENCLAVE: {sgx_quote.report_body.mrsigner.hex()}",'),
    "pubkeys-hash-by-insertion-order": _m(
        "admin.attestation_utils", "compute_pubkeys_hash",
        "for path in sorted(pubkeys_map.keys()):", "for path in pubkeys_map.keys():"),
}

if __name__ == "__main__":
    import checks.c08 as _me
    batch.main(_me)
