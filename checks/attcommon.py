"""Shared pipeline helpers for the attestation checks (C06, C08, C15): a genuine
simulated Ledger device, the real tool processes that gather and verify."""
import json
import re

from sim.choices import EventLog
from sim.clock import Clock
from sim.adminworld import AdminWorld
from sim.devices import ledger as L
from sim.devices.ledger_admin import AdminLedgerDevice, MODE_DASHBOARD

import adm_ledger

PIN = "abcd1234"
ATT1 = "/simfs/attestation-setup.json"
ATT2 = "/simfs/attestation.json"
KEYS_TXT = "/simfs/pubkeys.txt"
KEYS_JSON = "/simfs/pubkeys.json"


def ledger_world(ch, onboarded=False, extra_cfg=None, seed=None):
    seed = seed if seed is not None else ch.bytes(6, "devseed")
    log, clock = EventLog(), Clock()
    cfg = {"mode": L.MODE_BOOTLOADER, "onboarded": onboarded, "pin": PIN.encode(),
           "endorsed": onboarded,
           "post_exit_ui": {"mode": L.MODE_SIGNER, "delay": 0.5, "silence": "read_err"},
           "post_exit_ui_nosig": {"mode": MODE_DASHBOARD, "delay": 0.5, "silence": "read_err"},
           "ui_page": ch.pick([109, 80, 40, 28], "ui.page"),
           "signer_page": ch.pick([255, 100, 40], "signer.page"),
           "legacy_signer": ch.draw(4, "signer.legacy") == 1,
           "signer_iteration": ch.pick([1, 0, 65535, 300], "signer.iteration")}
    if extra_cfg:
        cfg.update(extra_cfg)
    dev = AdminLedgerDevice(ch, clock, log, seed=seed, cfg=cfg)
    w = AdminWorld(ch, dev)
    return w, dev


def onboard(w, dev, out=ATT1):
    w.operator.stdin_script = [("yes", None), ("", dev.replug)]
    return w.run_tool(adm_ledger.main, ["adm_ledger.py", "onboard", "-p", PIN, "-o", out])


def attestation(w, dev, ud_hex, cert_in=ATT1, out=ATT2):
    dev.replug()
    return w.run_tool(adm_ledger.main, ["adm_ledger.py", "attestation", "-p", PIN, "-t", cert_in,
                                        "-o", out, "--attudsource", ud_hex])


def pubkeys(w, dev, out=KEYS_TXT):
    dev.replug()
    return w.run_tool(adm_ledger.main, ["adm_ledger.py", "pubkeys", "-p", PIN, "-o", out])


def verify(w, root_hex, cert=ATT2, keys=KEYS_JSON):
    argv = ["adm_ledger.py", "verify_attestation", "-t", cert, "-b", keys]
    if root_hex is not None:
        argv += ["-r", root_hex]
    return w.run_tool(adm_ledger.main, argv)


FIELDS = {
    "ui_ud": r"UI verified with:\nUD value: ([0-9a-f]*)",
    "ui_pubkey": r"Derived public key \(m/44'/0'/0'/0/0\): ([0-9a-f]*)",
    "ui_signer_hash": r"Authorized signer hash: ([0-9a-f]*)",
    "ui_signer_iteration": r"Authorized signer iteration: (\d+)",
    "ui_hash": r"Installed UI hash: ([0-9a-f]*)",
    "ui_version": r"Installed UI version: (\S+)",
    "keys_hash": r"\nHash: ([0-9a-f]*)",
    "signer_hash": r"Installed Signer hash: ([0-9a-f]*)",
    "signer_version": r"Installed Signer version: (\S+)",
    "platform": r"Platform: (\S+)",
    "ud": r"\nUD value: ([0-9a-f]*)\nBest block",
    "best_block": r"Best block: ([0-9a-f]*)",
    "last_tx": r"Last transaction signed: ([0-9a-f]*)",
    "timestamp": r"Timestamp: (\d+)",
    "mrenclave": r"MRENCLAVE: ([0-9a-f]*)",
    "mrsigner": r"MRSIGNER: ([0-9a-f]*)",
    "powhsm_version": r"Installed powHSM version: (\S+)",
}


def parse_verify_output(text):
    out = {}
    for k, rx in FIELDS.items():
        m = re.search(rx, text)
        if m:
            out[k] = m.group(1)
    return out


def load_json(w, path):
    data = w.fs.files.get(path)
    if data is None:
        return None
    try:
        return json.loads(data.decode())
    except Exception:
        return None


# ------------------------------------------------------------------ SGX

import adm_sgx                                             # noqa: E402
from sim.devices.sgx_admin import SgxAdminDevice           # noqa: E402
from refs import sgxpki                                    # noqa: E402

SGX_ATT = "/simfs/sgx-attestation.json"
SGX_ROOT = "/simfs/sgx-root.pem"
SGX_PIN = "sgxpin1A"


def sgx_world(ch, windows=None, extra_cfg=None, qe_auth=None, include_root=None, ca_curve=None,
              seed=None, qe_digest_zero_tail=False):
    seed = seed if seed is not None else ch.bytes(6, "devseed")
    log, clock = EventLog(), Clock()
    now = clock.now
    pki = sgxpki.Pki(seed, now, windows=windows, ca_curve=ca_curve or sgxpki.P256)
    att_sk = sgxpki.sk_from(b"attkey" + seed)
    if qe_auth is None:
        qe_auth = ch.bytes(ch.pick([32, 0, 1, 1000, 200], "qe.auth.len"), "qe.auth")
    if qe_auth and ch.draw(4, "qe.auth.zero-tail") == 1:
        qe_auth = qe_auth[:-1] + b"\x00"          # binary data: a trailing zero byte is a byte of it
    if qe_digest_zero_tail:
        # QE authentication data chosen so that the digest the QE report commits to ends in a zero byte
        import hashlib as _h
        base = qe_auth[:-2] if len(qe_auth) >= 2 else qe_auth
        for n in range(1 << 16):
            cand = base + n.to_bytes(2, "big")
            if _h.sha256(att_sk.verifying_key.to_string() + cand).digest()[-1] == 0:
                qe_auth = cand
                break
    if include_root is None:
        include_root = ch.draw(2, "chain.two-certs") == 0
    mre = ch.bytes(32, "mrenclave")
    mrs = ch.bytes(32, "mrsigner")
    cfg = {"onboarded": True, "pin": SGX_PIN.encode(), "locked": True,
           "page": ch.pick([200, 250, 64], "sgx.page")}
    if extra_cfg:
        cfg.update(extra_cfg)
    builder = cfg.pop("quote_builder_override", None)
    dev = SgxAdminDevice(ch, clock, log, seed=seed, cfg=cfg)
    if builder is None:
        def builder(msg):
            return sgxpki.build_envelope(pki, att_sk, msg, qe_auth=qe_auth, mrenclave=mre,
                                         mrsigner=mrs, include_root=include_root)
    dev.quote_builder = builder
    w = AdminWorld(ch, dev, platform="sgx")
    w.fs.put(SGX_ROOT, sgxpki.pem(pki.root_der).encode())
    info = {"pki": pki, "att_sk": att_sk, "qe_auth": qe_auth, "mrenclave": mre, "mrsigner": mrs,
            "include_root": include_root}
    return w, dev, info


def sgx_attestation(w, dev, ud_hex, out=SGX_ATT):
    dev.locked = True
    return w.run_tool(adm_sgx.main, ["adm_sgx.py", "attestation", "-P", SGX_PIN, "-o", out,
                                     "--attudsource", ud_hex])


def sgx_pubkeys(w, dev, out=KEYS_TXT):
    dev.locked = True
    return w.run_tool(adm_sgx.main, ["adm_sgx.py", "pubkeys", "-P", SGX_PIN, "-o", out])


def sgx_verify(w, root_path=SGX_ROOT, cert=SGX_ATT, keys=KEYS_JSON):
    return w.run_tool(adm_sgx.main, ["adm_sgx.py", "verify_attestation", "-t", cert, "-b", keys,
                                     "-r", root_path])
