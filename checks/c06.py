"""C06 - a Ledger attestation is accepted only if every link up to the root key
verifies.

Pipeline simulation: certificates are produced by the real gathering code
(adm_ledger onboard + attestation as tool processes) against a simulated genuine
Ledger, then ONE fault is applied - on the device link while gathering, at rest
in the stored file, in the root of trust - or the artefact comes from a
dishonest issuer that holds its keys.  The real loader / validator is compared
with an independent reference verifier on the same stored artefact."""
import hashlib
import hmac
import json

from sim import boot
boot.boot()

from sim import batch                                   # noqa: E402
from sim.mutate import patch_function                   # noqa: E402
from sim.devices.ledger_admin import Key, scalar, N     # noqa: E402
from refs import att_ledger as REF                      # noqa: E402
from checks import attcommon as A                       # noqa: E402

from admin.certificate import HSMCertificate, HSMCertificateRoot   # noqa: E402

PROPERTY = "C06"
LEVEL = "exploration"
RULE = ("one run = one version-1 certificate file and one root key, judged by the real loader + "
        "validate_and_get_values and by the independent reference; artefact classes: gathered by the "
        "real tools from a genuine simulated device (fault-free), gathered with one device answer "
        "altered on the link (bit flip / byte replaced / truncated / extended at a drawn exchange), "
        "altered at rest (message / signature / tweak bit flip, signatures swapped, element re-signed by "
        "an unrelated key, re-parented, target added / removed), wrong root (other key, corrupted point), "
        "dishonest issuer (validly signed trees of depth 1..4 over {device, attestation, ui, signer} with "
        "shared ancestors, missing / wrong tweaks, device / attestation messages of the shapes the value "
        "extractors distinguish, an element carrying the root's reserved name); the same "
        "certificate object is then asked again 0..2 times under other roots; non-trivial = a certificate "
        "file existed and loaded "
        "or was refused by both sides; distinct = (artefact class, alteration kind, element, verdict map)")
TIERS = {"quick": {"runs": 8000, "wall": 240}, "thorough": {"runs": 150000, "wall": 3000}}
MUTANT_RUNS = 1200
MUTANT_WALL = 120
COMPONENTS = {
    "real": ["admin.certificate_v1 (from_jsonfile, _parse, validate_and_get_values, element is_valid / "
             "get_value / get_pubkey)", "admin.certificate", "secp256k1 binding as used by the code",
             "gathering: adm_ledger onboard / attestation, admin.dongle_admin, ledger.hsm2dongle "
             "(get_ui_attestation, PowHsmAttestation), ledgerblue HID transport"],
    "stub": ["genuine Ledger model (BOLOS endorsement scheme two, UI and Signer attestation)",
             "device link (alteration point)", "file system (alteration point)", "operator", "clock"],
}
ASSUMPTIONS = [
    "graphs that neither the tools, the fault operators nor the dishonest-issuer generator produce are "
    "not explored (that part of the quantifier is input enumeration)",
    "reference: strict DER, low-S, SEC1 points incl. hybrid form, HMAC-SHA256 tweak added to the certifier",
]


def flip(b, ch, label):
    """One flipped bit; a third of the time at a structural position (first bytes: tags and
    lengths of DER / SEC1 encodings, last byte) and an extreme bit."""
    if not b:
        return b
    if ch.draw(3, label + ".structural") == 1:
        cands = [p for p in (0, 1, 2, 3, 4, len(b) - 1, len(b) // 2) if 0 <= p < len(b)]
        i = cands[ch.draw(len(cands), label + ".spos")]
        bit = (0, 7, 1, 5)[ch.draw(4, label + ".sbit")]
        return b[:i] + bytes([b[i] ^ (1 << bit)]) + b[i + 1:]
    i = ch.draw(len(b), label + ".pos")
    return b[:i] + bytes([b[i] ^ (1 << ch.draw(8, label + ".bit"))]) + b[i + 1:]


def alter_bytes(b, ch, label):
    k = ch.draw(4, label + ".how")
    if k == 0 or not b:
        return flip(b, ch, label)
    if k == 1:
        i = ch.draw(len(b), label + ".pos")
        return b[:i] + bytes([ch.draw(256, label + ".val")]) + b[i + 1:]
    if k == 2:
        return b[:len(b) - 1 - ch.draw(min(len(b), 4), label + ".cut")]
    return b + ch.bytes(1 + ch.draw(3, label + ".extn"), label + ".ext")


def malleate_signature(sig, ch, label, order=None):
    """Well-known ways in which a DER ECDSA signature gets 'tolerantly' re-read: tag 0x31, high-S,
    zero-padded integers, trailing bytes, long-form lengths."""
    n = order or N
    how = ch.pick(["tag-0x31", "high-s", "pad-r", "trailing-zero", "long-form-length", "tag-0x31",
                   "negative-r"], label + ".malleation")
    try:
        rl = sig[3]
        r = sig[4:4 + rl]
        sl = sig[5 + rl]
        sv = sig[6 + rl:6 + rl + sl]
    except IndexError:
        return bytes([sig[0] ^ 1]) + sig[1:], "tag-0x31"
    def enc(rb, sb, tag=0x30):
        body = b"\x02" + bytes([len(rb)]) + rb + b"\x02" + bytes([len(sb)]) + sb
        return bytes([tag, len(body)]) + body
    if how == "tag-0x31":
        return bytes([0x31]) + sig[1:], how
    if how == "high-s":
        hs = (n - int.from_bytes(sv, "big")) % n
        hb = hs.to_bytes(32, "big").lstrip(b"\x00") or b"\x00"
        if hb[0] & 0x80:
            hb = b"\x00" + hb
        return enc(r, hb), how
    if how == "pad-r":
        return enc(b"\x00" + r, sv), how
    if how == "trailing-zero":
        return sig + b"\x00", how
    if how == "long-form-length":
        return bytes([0x30, 0x81]) + sig[1:], how
    return enc(bytes([r[0] | 0x80]) + r[1:] if r and not r[0] & 0x80 else r, sv), how


def dishonest_certificate(ch):
    """A signed tree over the four element names, built by an issuer that holds the keys."""
    names = ch.shuffle(REF.VALID_NAMES, "dis.names")[:1 + ch.draw(4, "dis.n")]
    root = Key(scalar(b"disroot" + ch.bytes(4, "dis.root")))
    keys = {"root": root}
    elems = []
    parents = {}
    for i, nm in enumerate(names):
        parent = "root" if i == 0 else ch.pick(["root"] + names[:i], "dis.parent")
        if ch.draw(3, "dis.chain") != 0 and i > 0:
            parent = names[i - 1]
        parents[nm] = parent
        own = Key(scalar(b"diskey" + nm.encode() + ch.bytes(4, "dis.key")))
        keys[nm] = own
        if nm == "device":
            # the key is what the last 65 bytes of the message say (a shorter message is the key itself)
            msg = ch.pick([ch.bytes(ch.pick([9, 1, 0], "dis.hdr"), "dis.hdrb") + own.pub65, own.pub33,
                           bytes([ch.draw(256, "dis.dev33")]) + own.pub33], "dis.devmsg")
        elif nm == "attestation":
            # the key is everything after the first byte: compressed keys are keys, a longer message
            # that merely ends in a key is not one
            msg = ch.weighted([(4, b"\xff" + own.pub65), (1, b"\xff" + own.pub33),
                               (1, b"\xff\x00" + own.pub65),
                               (1, b"\xff" + own.pub65 + b"\x00")], "dis.attmsg")
        else:
            msg = ch.pick([own.pub65, own.pub33, b"HSM:UI:5.4" + ch.bytes(40, "dis.uimsg")],
                          "dis.leafmsg")
        tweak = None
        tw_mode = ch.weighted([(3, "none"), (2, "valid"), (1, "declared-not-used"),
                               (1, "used-not-declared"), (1, "wrong")], "dis.tweak")
        signer_key = keys[parent]
        if tw_mode != "none":
            # (the tweak is whatever bytes the element declares: hashes are 32 bytes, nothing says a
            # tweak is)
            tweak = ch.bytes(ch.weighted([(5, 32), (1, 20), (1, 1), (1, 33), (1, 64), (1, 65)], "dis.tw.len"),
                             "dis.tw")
        use = tweak if tw_mode in ("valid", "used-not-declared") else None
        if tw_mode == "wrong":
            use = ch.bytes(32, "dis.tw2")
        if use is not None:
            t = int.from_bytes(hmac.new(use, signer_key.pub65, hashlib.sha256).digest(), "big")
            signer_key = Key(((int.from_bytes(signer_key.priv, "big") + t) % N).to_bytes(32, "big"))
        sig = signer_key.sign(msg)
        e = {"name": nm, "message": msg.hex(), "signature": sig.hex(), "signed_by": parent}
        if tweak is not None and tw_mode in ("valid", "declared-not-used", "wrong"):
            e["tweak"] = tweak.hex()
        elems.append(e)
    targets = [n for n in names if ch.draw(2, "dis.target") == 0] or [names[-1]]
    return {"version": 1, "targets": targets, "elements": elems}, root.pub65


def run_one(ch, cfg):
    cls = ch.weighted([(2, "genuine"), (3, "link"), (4, "at-rest"), (1, "wrong-root"),
                       (3, "dishonest")], "artefact-class")
    kind = cls
    elem_name = None
    viol = []
    w = None
    if cls == "dishonest":
        from sim.choices import EventLog
        from sim.clock import Clock
        from sim.adminworld import AdminWorld
        from sim.devices.ledger_admin import AdminLedgerDevice
        doc, root = dishonest_certificate(ch)
        dev = AdminLedgerDevice(ch, Clock(), EventLog(), seed=b"x", cfg={})
        w = AdminWorld(ch, dev)
        w.fs.put(A.ATT2, json.dumps(doc).encode())
        root_hex = root.hex()
    else:
        w, dev = A.ledger_world(ch)
        if cls == "link":
            target = ch.draw(160, "link.exchange")
            how = ch.draw(1 << 30, "link.alter-seed")

            def fault_fn(i, apdu, target=target):
                if i == target:
                    from sim.choices import Choices
                    sub = Choices(seed=how)
                    return ("alter", lambda b: alter_bytes(b, sub, "link"))
                return None
            w.link.fault_fn = fault_fn
        st1, out1 = A.onboard(w, dev)
        st2, out2 = (None, "")
        if st1 == 0:
            st2, out2 = A.attestation(w, dev, ch.bytes(32, "ud").hex())
        w.link.fault_fn = None
        if st1 != 0 or st2 != 0:
            if cls == "genuine":
                viol.append(("gather/genuine-device-failed", "onboard exit %s, attestation exit %s: %s"
                             % (st1, st2, (out1 + out2)[-300:])))
            w.entropy_on = False
            return _res(viol, w, (cls, "gathering-failed"), False,
                        {"gathering_failed": 1, "class." + cls: 1},
                        {"class": cls, "onboard_exit": st1, "attestation_exit": st2})
        root_hex = dev.issuer.pub65.hex()
        doc = A.load_json(w, A.ATT2)
        if ch.draw(2, "validate-genuine-first") == 0:
            try:
                w.activate()
                HSMCertificate.from_jsonfile(A.ATT2).validate_and_get_values(
                    HSMCertificateRoot(root_hex))
            except Exception:
                pass
        if cls == "at-rest":
            kind = ch.pick(["message", "signature", "tweak", "swap-signatures", "re-sign",
                            "re-parent", "add-target", "remove-target", "drop-tweak",
                            "signature-malleation", "signature-malleation", "root-named-element"],
                           "rest.kind")
            elems = doc["elements"]
            e = elems[ch.draw(len(elems), "rest.elem")]
            elem_name = e["name"]
            if kind in ("message", "signature"):
                e[kind] = alter_bytes(bytes.fromhex(e[kind]), ch, "rest").hex() or "00"
            elif kind == "signature-malleation":
                e["signature"], how = malleate_signature(bytes.fromhex(e["signature"]), ch, "rest")
                e["signature"] = e["signature"].hex()
                kind = "malleation:" + how
            elif kind == "root-named-element":
                # an element that carries the reserved name of the root of trust: either a stray copy
                # of a genuine element, or the certifier of a chain re-signed by a stranger
                twin = dict(e)
                twin["name"] = "root"
                if ch.draw(2, "rootnamed.forged") == 1:
                    top = [x for x in elems if x["signed_by"] == "root"][0]
                    forger = Key(scalar(b"forger" + ch.bytes(4, "rest.k")))
                    top["signature"] = forger.sign(bytes.fromhex(top["message"])).hex()
                    top.pop("tweak", None)
                    twin = {"name": "root", "message": forger.pub65.hex(), "signed_by": "root",
                            "signature": forger.sign(forger.pub65).hex()}
                    kind = "root-named-element:forged"
                elems.insert(ch.draw(len(elems) + 1, "rootnamed.pos"), twin)
            elif kind == "tweak":
                if "tweak" in e:
                    e["tweak"] = flip(bytes.fromhex(e["tweak"]), ch, "rest").hex()
                else:
                    e["tweak"] = ch.bytes(32, "rest.newtweak").hex()
            elif kind == "drop-tweak":
                e.pop("tweak", None)
            elif kind == "swap-signatures":
                o = elems[ch.draw(len(elems), "rest.other")]
                e["signature"], o["signature"] = o["signature"], e["signature"]
            elif kind == "re-sign":
                e["signature"] = Key(scalar(b"stranger" + ch.bytes(4, "rest.k"))).sign(
                    bytes.fromhex(e["message"])).hex()
            elif kind == "re-parent":
                e["signed_by"] = ch.pick(["root", "device", "attestation", "ui", "signer"],
                                         "rest.parent")
            elif kind == "add-target":
                doc["targets"] = doc["targets"] + [ch.pick(["device", "attestation", "ui"],
                                                           "rest.target")]
            elif kind == "remove-target":
                doc["targets"] = doc["targets"][:-1]
            w.fs.put(A.ATT2, json.dumps(doc).encode())
        elif cls == "wrong-root":
            kind = ch.pick(["other-key", "corrupted", "device-key", "compressed"], "root.kind")
            if kind == "other-key":
                root_hex = Key(scalar(b"other" + ch.bytes(4, "root.k"))).pub65.hex()
            elif kind == "corrupted":
                root_hex = flip(dev.issuer.pub65, ch, "root").hex()
            elif kind == "device-key":
                root_hex = dev.device_key.pub65.hex()
            else:
                root_hex = dev.issuer.pub33.hex()      # same key, compressed form: still the root
    w.entropy_on = False
    w.activate()
    # ---- the real code on the stored artefact
    real = None
    real_err = None
    try:
        cert = HSMCertificate.from_jsonfile(A.ATT2)
        try:
            rootobj = HSMCertificateRoot(root_hex)
        except ValueError:
            rootobj = None
        if rootobj is not None:
            real = cert.validate_and_get_values(rootobj)
        else:
            real = "bad-root"
    except Exception as e:
        real_err = "%s: %s" % (type(e).__name__, str(e)[:100])
    # ---- the reference on the same artefact
    stored = A.load_json(w, A.ATT2)
    rc = REF.load(stored)
    if rc is None:
        ref = None
    elif REF.parse_pubkey(bytes.fromhex(root_hex)) is None:
        ref = "bad-root"
    else:
        ref = REF.validate(rc, bytes.fromhex(root_hex))
    desc = "class %s/%s element %s: real %s%s, reference %s" % (
        cls, kind, elem_name, _short(real), (" (" + real_err + ")") if real_err else "", _short(ref))
    # ---- the same certificate object asked again, under other root keys: the verdict is a function
    # of (certificate, root key), whatever the object was asked before
    again = []
    if isinstance(real, dict) and rc is not None:
        for j in range(ch.draw(3, "ask-again")):
            rk = ch.pick(["stranger", "genuine", "same", "device-key"], "again.root")
            r2 = {"stranger": Key(scalar(b"again" + bytes([j]))).pub65, "genuine": dev.issuer.pub65,
                  "same": bytes.fromhex(root_hex), "device-key": dev.device_key.pub65}[rk]
            try:
                real2 = cert.validate_and_get_values(HSMCertificateRoot(r2.hex()))
            except Exception as e:
                real2 = "%s: %s" % (type(e).__name__, str(e)[:80])
            ref2 = REF.validate(rc, r2)
            again.append(rk)
            if real2 != ref2:
                viol.append(("history/same-object-other-root",
                             "%s; asked again (call %d) under root %s: real %s, reference %s" % (
                                 desc, j + 2, rk, _short(real2), _short(ref2))))
                break
    # ---- an element replaced on the live object (what the attestation command does with ui / signer):
    # the next verdict is about the certificate as it is now
    if isinstance(real, dict) and rc is not None and not viol and isinstance(stored, dict) \
            and stored.get("elements") and ch.draw(3, "replace-element") == 1:
        import copy as _copy
        from admin.certificate_v1 import HSMCertificateElement
        doc2 = _copy.deepcopy(stored)
        e2 = doc2["elements"][ch.draw(len(doc2["elements"]), "replace.which")]
        how2 = ch.pick(["signature", "message", "re-sign"], "replace.how")
        try:
            if how2 == "re-sign":
                e2["signature"] = Key(scalar(b"repl" + ch.bytes(4, "replace.k"))).sign(
                    bytes.fromhex(e2["message"])).hex()
            else:
                e2[how2] = flip(bytes.fromhex(e2[how2]), ch, "replace").hex()
            cert.add_element(HSMCertificateElement(e2))
            real3 = cert.validate_and_get_values(HSMCertificateRoot(root_hex))
            rc3 = REF.load(doc2)
            ref3 = REF.validate(rc3, bytes.fromhex(root_hex)) if rc3 is not None else None
            if ref3 is not None and real3 != ref3:
                viol.append(("history/element-replaced",
                             "%s; element %s replaced (%s) on the same object: real %s, reference %s" % (
                                 desc, e2["name"], how2, _short(real3), _short(ref3))))
        except ValueError:
            pass
    if (real is None) != (ref is None):
        viol.append(("load/disagreement:%s" % kind.split(":")[0], desc))
    elif real is not None and real != ref:
        # which way does it err?
        accepts = isinstance(real, dict) and isinstance(ref, dict) and any(
            real.get(t, (False,))[0] and not ref.get(t, (False,))[0] for t in real)
        viol.append(("verdict/%s:%s" % ("accepted-invalid" if accepts else "mismatch",
                                        kind.split(":")[0]), desc))
    if cls == "genuine" and isinstance(real, dict):
        for t in ("ui", "signer"):
            if not real.get(t, (False,))[0]:
                viol.append(("verdict/genuine-rejected", desc))
    vm = tuple(sorted((t, v[0], v[1] if not v[0] else "ok") for t, v in real.items())) \
        if isinstance(real, dict) else str(real)
    return _res(viol, w, (cls, kind, elem_name, vm), True,
                {"class." + cls: 1, "kind." + kind: 1,
                 "any_invalid": int(isinstance(real, dict) and any(not v[0] for v in real.values()))},
                {"class": cls, "alteration": kind, "element": elem_name, "root": root_hex[:20] + "...",
                 "real_verdicts": _short(real), "reference_verdicts": _short(ref)})


def _short(r):
    if isinstance(r, dict):
        return {t: ((True, v[1][:16] + "...", v[2][:8] + "..." if v[2] else None) if v[0] else v)
                for t, v in r.items()}
    return r


def _res(viol, w, state, nontrivial, probes, sample):
    return {"violations": viol, "digest": w.log.digest(), "state": state, "nontrivial": nontrivial,
            "faults": dict(w.link.stats.faults), "probes": probes, "sim_s": w.clock.elapsed,
            "sample": sample}


def _m(owner_path, name, old, new, count=1):
    def apply():
        import importlib
        modname, _, clsname = owner_path.rpartition(".")
        try:
            owner = importlib.import_module(owner_path)
        except ImportError:
            owner = getattr(importlib.import_module(modname), clsname)
        return patch_function(owner, name, old, new, count)
    return apply


E = "admin.certificate_v1.HSMCertificateElement"
C = "admin.certificate_v1.HSMCertificate"
MUTANTS = {
    "verdicts-remembered-on-the-object": _m(
        "admin.certificate_v1.HSMCertificate", "validate_and_get_values",
        "if not current.is_valid(current_certifier):",
        "if not (current.name in self.__dict__.setdefault('_v', set()) or "
        "(current.is_valid(current_certifier) and not self._v.add(current.name))):"),
    "tweak-ignored": _m(E, "is_valid", "if self.tweak is not None:", "if False:"),
    "tweak-hmac-key-swapped": _m(
        E, "is_valid", "bytes.fromhex(self.tweak),\n certifier_pubkey.serialize(compressed=False),",
        "certifier_pubkey.serialize(compressed=False),\n bytes.fromhex(self.tweak),"),
    "root-element-not-verified": _m(
        C, "validate_and_get_values", "current_certifier = root_of_trust",
        "current_certifier = root_of_trust; current_certifier = current if chain else root_of_trust; "
        "current = chain.pop() if chain else current"),
    "failing-element-is-target": _m(C, "validate_and_get_values",
                                    "result[target] = (False, current.name)",
                                    "result[target] = (False, target)"),
    "device-value-from-start": _m(E, "get_value",
                                  "return self.EXTRACTORS[self.name](bytes.fromhex(self.message)).hex()",
                                  "return (bytes.fromhex(self.message)[:65] if self.name == 'device' "
                                  "else self.EXTRACTORS[self.name](bytes.fromhex(self.message))).hex()"),
    "exception-means-valid": _m(E, "is_valid", "except Exception:\n return False",
                                "except Exception:\n return True"),
    "leaf-signature-unchecked": _m(
        C, "validate_and_get_values", "if not current.is_valid(current_certifier):",
        "if len(chain) > 0 and not current.is_valid(current_certifier):"),
    "value-of-parent-returned": _m(
        C, "validate_and_get_values",
        "result[target] = (True, current.get_value(), current.get_tweak())",
        "result[target] = (True, current_certifier.get_value() if hasattr(current_certifier, "
        "'get_value') else current.get_value(), current.get_tweak())"),
}

if __name__ == "__main__":
    import checks.c06 as _me
    batch.main(_me)
