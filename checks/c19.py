"""C19 - app hashing and one-time signing bind to the application's actual code.

Tool runs (`signonetime.main`, `signapp hash`) as processes over the simulated
file system and entropy stream.  The seams that matter: ENTROPY (the one-time key
must come from fresh randomness of that run) and the FILE SYSTEM (every byte the
process writes is recorded: the private scalar must appear nowhere)."""
import hashlib

from sim import boot
boot.boot()

import ecdsa                                            # noqa: E402

from sim import batch                                   # noqa: E402
from sim import simfs                                   # noqa: E402
from sim.choices import Choices, EventLog               # noqa: E402
from sim.clock import Clock                             # noqa: E402
from sim.adminworld import AdminWorld                   # noqa: E402
from sim.mutate import patch_function                   # noqa: E402
from sim.devices.ledger import LedgerDevice             # noqa: E402
from refs import hexfile                                # noqa: E402

import signonetime                                      # noqa: E402
import signapp                                          # noqa: E402

signapp.isfile = simfs._isfile

PROPERTY = "C19"
LEVEL = "exploration"
RULE = ("one run = 1..4 generated Intel-HEX images (1..8 data areas across 64 KiB zones, gaps, areas "
        "written out of address order, record lengths 1..255, LF / CRLF) hashed by `signapp hash` in two "
        "different writings each (one image in four of a multi-image run is an earlier image of the run in "
        "another writing), embedded by `signapp message` for successive releases (same output path, "
        "fresh paths, console), then signed by `signonetime` (distinct file names, build<i>/app.hex, or "
        "names that a shell would read as patterns) "
        "twice under two different entropy streams (each run without / with -v / --verbose) "
        "(and once more under the first stream); non-trivial = at least one signature file was written; "
        "distinct = (#images, #areas, multi-zone, out-of-order, record-length set, eol)")
TIERS = {"quick": {"runs": 5000, "wall": 240}, "thorough": {"runs": 100000, "wall": 3000}}
MUTANT_RUNS = 300
MUTANT_WALL = 120
COMPONENTS = {
    "real": ["signonetime.main", "signapp.main (hash, message)", "admin.ledger_utils.compute_app_hash",
             "ledgerblue.hexParser.IntelHexParser", "ecdsa (key generation and signing as used by the tool)"],
    "stub": ["file system (SimFS, records every write)", "entropy (os.urandom -> recorded stream)",
             "operator (argv, stdout)"],
}
ASSUMPTIONS = [
    "'whatever the record sizes' is input sampling: writings are drawn, not enumerated",
    "secrecy is checked for the private scalar recomputed from the recorded entropy with the ecdsa "
    "package's own generation routine; if the tool's key does not match that derivation, secrecy is "
    "checked only through 'no 32-byte entropy chunk appears in any output'",
]


class _Replay:
    def __init__(self, chunks):
        self.buf = b"".join(chunks)
        self.pos = 0

    def __call__(self, n):
        out = self.buf[self.pos:self.pos + n]
        self.pos += n
        if len(out) < n:
            out += b"\x00" * (n - len(out))
        return out


def run_signonetime(ch_seed, images, paths, leftovers=None, trouble=None, options=()):
    """trouble: None or (image index, kind) - kind 'missing' (the image is not there), 'read-eio' /
    'read-eperm' (opening it fails), 'sig-enospc' / 'sig-eperm' (its signature file cannot be written)"""
    ch = Choices(seed=ch_seed)
    log, clock = EventLog(), Clock()
    dev = LedgerDevice(ch, clock, log)
    w = AdminWorld(ch, dev)
    for i, (p, content) in enumerate(zip(paths, images)):
        if trouble is not None and trouble == (i, "missing"):
            continue
        w.fs.put(p, content)
    if trouble is not None and trouble[1] != "missing":
        ti, tk = trouble

        def ffn(op, path, idx):
            if tk.startswith("read-") and op == "open-r" and path == paths[ti]:
                return tk[5:]
            if tk.startswith("sig-") and op == "open-w" and path == paths[ti] + ".sig":
                return tk[4:]
            return None
        w.fs.fault_fn = ffn
    # the tool may be run again in a directory that still holds what an earlier run wrote
    for p, content in sorted((leftovers or {}).items()):
        w.fs.put(p, content)
    before = dict(w.fs.files)
    st, out = w.run_tool(signonetime.main, ["signonetime.py", "-a", ",".join(paths), "-p",
                                            "/simfs/onetime.pub"] + list(options))
    w.entropy_on = False
    written = sorted(set(p for p, _ in w.fs.writes))
    return w, st, out, written, before


def run_one(ch, cfg):
    nimg = 1 + ch.draw(4, "images")
    viol = []
    areas_list, paths, writings = [], [], []
    same_name = ch.draw(3, "same-file-name") == 1
    # ... or names that are file names to the tool and would be patterns to a shell (img[1].hex next
    # to img1.hex): a path given is the file of that name
    odd_names = not same_name and ch.draw(4, "pattern-like-names") == 1
    shape = []
    for i in range(nimg):
        areas = hexfile.gen_areas(ch)
        if i and ch.draw(4, "same-application-again") == 1:
            # the same application as an earlier image of the run, in another writing (rebuilt, copied
            # under another name): each image given still gets its own signature file
            areas = areas_list[ch.draw(i, "same-application.which")]
        eol = ch.pick(["\n", "\r\n"], "eol")
        a = hexfile.write(ch, areas, eol=eol, with_start_record=ch.draw(2, "start-rec") == 1)
        b = hexfile.write(ch, areas, eol=ch.pick(["\n", "\r\n"], "eol2"))
        areas_list.append(areas)
        # images of one signing run may share their file name (builds/v1/app.hex, builds/v2/app.hex)
        if odd_names:
            paths.append("/simfs/img%d.hex" % (i // 2 + 1) if i % 2 == 0 else "/simfs/img[%d].hex" % (i // 2 + 1))
        else:
            paths.append(("/simfs/build%d/app.hex" if same_name else "/simfs/app%d.hex") % i)
        writings.append((a, b))
        zones = set((s >> 16) for s, d in areas) | set(((s + len(d) - 1) >> 16) for s, d in areas)
        shape.append((len(areas), len(zones) > 1))
    # ---- signapp hash on both writings of every image
    log, clock = EventLog(), Clock()
    w0 = AdminWorld(ch, LedgerDevice(ch, clock, log))
    for i in range(nimg):
        want = hexfile.reference_hash(areas_list[i]).hex()
        for j, content in enumerate(writings[i]):
            w0.fs.put("/simfs/h.hex", content)
            st, out = w0.run_tool(signapp.main, ["signapp.py", "hash", "-a", "/simfs/h.hex"])
            got = out.strip().split("Computed hash: ")[-1].strip() if "Computed hash: " in out else None
            if st != 0 or got != want:
                viol.append(("hash/value", "image %d writing %d: signapp hash -> %r (exit %s), SHA-256 "
                             "over the areas in address order is %s" % (i, j, got, st, want)))
    # ---- signapp message: successive releases written to the same authorisation file (and to the
    # console): the hash embedded is that of the image given in *this* run
    import json as _json
    order = list(range(nimg)) + ([ch.draw(nimg, "release.again")] if ch.draw(2, "release.extra") else [])
    same_path = ch.draw(4, "release.fresh-path") != 1
    for n, i in enumerate(order):
        want = hexfile.reference_hash(areas_list[i]).hex()
        it = ch.pick([1, 2, 0, 65535, 300], "release.iteration") if n else ch.pick([1, 0, 7], "release.it0")
        w0.fs.put("/simfs/rel.hex", writings[i][n % 2])
        outp = "/simfs/auth.json" if same_path else "/simfs/auth%d.json" % n
        console = ch.draw(4, "release.console") == 1
        argv = ["signapp.py", "message", "-a", "/simfs/rel.hex", "-i", str(it)]
        st, out = w0.run_tool(signapp.main, argv + ([] if console else ["-o", outp]))
        if st != 0:
            viol.append(("message/failed", "release %d (image %d): exit %s: %s" % (n, i, st, out[-200:])))
            continue
        if console:
            if ("RSK_powHSM_signer_%s_iteration_%d" % (want, it)) not in out:
                viol.append(("message/hash", "release %d (image %d, iteration %d) printed %r; the image "
                             "hashes to %s" % (n, i, it, out[-300:], want)))
            continue
        try:
            doc = _json.loads(w0.fs.files[outp].decode())
            got = (doc["signer"]["hash"], doc["signer"]["iteration"], doc["signatures"])
        except Exception as e:
            got = "unreadable: %s" % e
        if got != (want, it, []):
            viol.append(("message/hash", "release %d (image %d, iteration %d) to %s path wrote %r; the "
                         "image hashes to %s" % (n, i, it, "the same" if same_path else "a fresh",
                                                 got, want)))
    w0.entropy_on = False
    # ---- signonetime under two entropy streams (+ a repeat of the first)
    images = [wr[0] for wr in writings]
    s1, s2 = ch.draw(1 << 30, "entropy-1"), ch.draw(1 << 30, "entropy-2")
    if s1 == s2:
        s2 = s1 + 1
    # the tool's other command-line options (the operator may ask for verbose output)
    opts = [(), ("-v",), ("--verbose",)]
    o1, o2 = ch.pick(opts, "options-1"), ch.pick(opts, "options-2")
    first = run_signonetime(s1, images, paths, options=o1)
    left = None
    if ch.draw(2, "second-run-in-same-directory") == 1:
        left = {p: d for p, d in first[0].fs.files.items() if p.endswith(".sig") or p.endswith(".pub")}
    # one image in trouble (one run in five): the tool must not claim success for that run
    trouble = None
    if ch.draw(5, "image-in-trouble") == 1:
        trouble = (ch.draw(nimg, "trouble.image"),
                   ch.pick(["missing", "read-eio", "read-eperm", "sig-enospc", "sig-eperm"], "trouble.kind"))
    runs = [first, run_signonetime(s2, images, paths, leftovers=left, trouble=trouble, options=o2)]
    pubs = []
    for ri, (w, st, out, written, before) in enumerate(runs):
        tag = "signonetime run %d" % ri
        if ri == 1 and trouble is not None:
            tag += " (image %d %s)" % trouble
            if st != 0:
                continue          # refusing is the right answer; a claimed success is judged below
        if st != 0:
            viol.append(("sign/failed", "%s exit %s: %s" % (tag, st, out[-200:])))
            continue
        pub_hex = w.fs.files.get("/simfs/onetime.pub", b"").decode("ascii", "replace")
        try:
            vk = ecdsa.VerifyingKey.from_string(bytes.fromhex(pub_hex), curve=ecdsa.SECP256k1)
        except Exception:
            viol.append(("sign/public-key-file", "%s wrote %r" % (tag, pub_hex[:80])))
            continue
        pubs.append(pub_hex)
        for i, p in enumerate(paths):
            sig_hex = w.fs.files.get(p + ".sig", b"").decode("ascii", "replace")
            want = hexfile.reference_hash(areas_list[i])
            try:
                ok = vk.verify_digest(bytes.fromhex(sig_hex), want, sigdecode=ecdsa.util.sigdecode_der)
            except Exception:
                ok = False
            if not ok:
                viol.append(("sign/signature", "%s: %s.sig does not verify under the written public "
                             "key for the image's hash" % (tag, p)))
        expect_files = sorted(["/simfs/onetime.pub"] + [p + ".sig" for p in paths])
        if written != expect_files:
            viol.append(("sign/files-written", "%s wrote %s, expected %s" % (tag, written, expect_files)))
        for p in paths:
            if w.fs.files.get(p) != before.get(p):
                viol.append(("sign/image-modified", "%s modified %s" % (tag, p)))
        # ---- freshness: the key comes out of this run's entropy
        if sum(len(e) for e in w.entropy_served) < 32:
            viol.append(("key/no-entropy-consumed", "%s consumed %d bytes of entropy" % (
                tag, sum(len(e) for e in w.entropy_served))))
        # ---- secrecy
        outputs = [out.encode()] + [d for _, d in w.fs.writes]
        secret = None
        try:
            d = ecdsa.util.randrange(ecdsa.SECP256k1.order, entropy=_Replay(w.entropy_served))
            cand = ecdsa.SigningKey.from_secret_exponent(d, curve=ecdsa.SECP256k1)
            if cand.get_verifying_key().to_string("uncompressed").hex() == pub_hex:
                secret = d
        except Exception:
            pass
        needles = []
        if secret is not None:
            sb = secret.to_bytes(32, "big")
            needles = [sb, sb.hex().encode(), sb.hex().upper().encode(), str(secret).encode()]
        for e in w.entropy_served:
            if len(e) >= 32:
                needles += [e, e.hex().encode()]
        for blob in outputs:
            for nd in needles:
                if nd in blob:
                    viol.append(("key/secret-written", "%s: private key material appears in an "
                                 "output (%d bytes matched)" % (tag, len(nd))))
                    break
    if len(pubs) == 2 and pubs[0] == pubs[1]:
        viol.append(("key/not-fresh", "two runs with different entropy produced the same key %s..."
                     % pubs[0][:24]))
    st = (nimg, tuple(shape))
    last = runs[-1][0]
    return {"violations": viol, "digest": last.log.digest() + w0.log.digest()[:8], "state": st,
            "nontrivial": len(pubs) > 0, "faults": {},
            "probes": {"images": nimg, "multi_zone_images": sum(1 for s in shape if s[1]),
                       "entropy_bytes": sum(len(e) for e in last.entropy_served)},
            "sim_s": 0.0,
            "sample": {"images": [{"areas": [(hex(s), len(d)) for s, d in a]} for a in areas_list],
                       "public_keys": [p[:20] + "..." for p in pubs],
                       "files_written": runs[-1][3]}}


def _m(owner_path, name, old, new, count=1):
    def apply():
        import importlib
        modname, _, clsname = owner_path.rpartition(".")
        try:
            owner = importlib.import_module(owner_path)
        except ImportError:
            owner = getattr(importlib.import_module(modname), clsname)
        return patch_function(owner, name, old, new, count)
    return apply


MUTANTS = {
    "hash-skips-first-area": _m("admin.ledger_utils", "compute_app_hash",
                                "for a in parser.getAreas():", "for a in parser.getAreas()[1:] or "
                                "parser.getAreas():"),
    "hash-in-file-order": _m("admin.ledger_utils", "compute_app_hash",
                             "for a in parser.getAreas():",
                             "for a in sorted(parser.getAreas(), key=lambda x: len(x.data)):"),
    "constant-key": _m("signonetime", "main", "sk = ecdsa.SigningKey.generate(curve=ecdsa.SECP256k1)",
                       "sk = ecdsa.SigningKey.from_secret_exponent(1234567, curve=ecdsa.SECP256k1)"),
    "key-derived-from-app-path": _m(
        "signonetime", "main", "sk = ecdsa.SigningKey.generate(curve=ecdsa.SECP256k1)",
        "import hashlib; sk = ecdsa.SigningKey.from_secret_exponent(int.from_bytes(hashlib.sha256("
        "options.app_path.encode()).digest(), 'big') % (ecdsa.SECP256k1.order - 1) + 1, "
        "curve=ecdsa.SECP256k1)"),
    "private-key-saved": _m(
        "signonetime", "main",
        'info(f"Public key saved to {options.publickey_path}")',
        'info(f"Public key saved to {options.publickey_path}"); '
        'open(options.publickey_path.strip() + ".key", "wb").write(sk.to_string().hex().encode())'),
    "private-key-printed": _m(
        "signonetime", "main", 'info("Signing with key...")',
        'info("Signing with key %s..." % sk.to_string().hex())'),
    "signs-hash-of-hash": _m("signonetime", "main",
                             "signature = sk.sign_digest(app_hash, sigencode=ecdsa.util.sigencode_der)",
                             "import hashlib; signature = sk.sign_digest(hashlib.sha256(app_hash).digest(), "
                             "sigencode=ecdsa.util.sigencode_der)"),
    "new-key-per-app": _m("signonetime", "main", 'info("Signing with key...")',
                          'sk = ecdsa.SigningKey.generate(curve=ecdsa.SECP256k1)'),
    "signature-for-previous-app": _m(
        "signonetime", "main", 'signature_path = f"{app_path}.sig"',
        'signature_path = f"{options.app_path.split(",")[0].strip()}.sig"'),
}

if __name__ == "__main__":
    import checks.c19 as _me
    batch.main(_me)
