"""C11 - link failures get a device-error reply and are repaired on the next request.

Fault enumeration: link fault (write error, read error before/after the device
acted, time-out before/after) at every exchange index of every command, then
1..3 follow-up requests with a scripted reconnection outcome (ok / device absent
j times / open fails j times).  Transport-log ordering oracle."""
import copy
from sim import boot
boot.boot()

from sim import batch                        # noqa: E402
from sim.mutate import patch_function        # noqa: E402
from sim.devices import ledger as L          # noqa: E402
from checks import c04                       # noqa: E402

PROPERTY = "C11"
LEVEL = "fault_enumeration"
RULE = ("one run = bring-up, one request of one of the 13 command variants (10 in v5, 3 in v1) with "
        "one link fault {write error, read error before / after the device acted, time-out before / "
        "after} at one exchange index (addressed through a fault-free dry run under the same device "
        "policy), then 1..3 follow-up requests while the reconnection is scripted {works, device absent "
        "for j attempts, open fails for j attempts} - in one run in six the device had been unlocked by "
        "the manager at start-up and comes back power-cycled (locked) -; enumerated: every (variant, exchange index, fault "
        "kind) for the tier's policy seeds; non-trivial = the fault fired; distinct = tuple (variant, "
        "step kind, fault kind, reconnection script, #follow-ups)")
TIERS = {"quick": {"runs": 60000, "wall": 240}, "thorough": {"runs": 1500000, "wall": 3000}}
EXHAUSTIVE = {"quick": False, "thorough": False}
COMPONENTS = {
    "real": ["comm.server._RequestHandler", "ledger.protocol (ensure_connection, initialize_device, "
             "every command handler)", "ledger.protocol_v1", "ledger.hsm2dongle (connect, disconnect, "
             "_send_command error classification)", "ledgerblue.comm (getDongle, HIDDongleHIDAPI)"],
    "stub": ["hid (simulated USB link: write/read failures, silence, enumeration, open failures)",
             "Signer / UI-heartbeat models", "clock (virtual; 10 s dongle time-outs cost microseconds)"],
}
ASSUMPTIONS = [
    "write/read errors are not injected at the EXIT exchanges of uiHeartbeat (the protocol itself "
    "disconnects there); time-outs are",
    "during the repair's own bring-up only silence at its mode / version / parameters exchange is injected "
    "(a failing onboarded check ends the manager by design; other second faults are outside the property)",
    "when an interrupted uiHeartbeat leaves the device outside signer mode the operator re-enters the "
    "signer before the follow-up in half of the runs; otherwise only 'no command APDU before bring-up' is demanded",
]

KINDS = ["write_err", "read_err_before", "read_err_after", "timeout_before", "timeout_after"]
SCRIPTS = [("ok", 0), ("absent", 1), ("absent", 2), ("openfail", 1), ("openfail", 2),
           # the connection is re-opened but the bring-up does not complete: silence at its 2nd / 3rd / 4th
           # exchange (mode, version, parameters) during the first repair attempt
           ("bringup-timeout", 1), ("bringup-timeout", 2), ("bringup-timeout", 3)]
BRINGUP = [0x06, 0x43, 0x06, 0x11]


def SIM_CFG(tier):
    return {"pseeds": 4 if tier == "quick" else 200, "cseeds": 4 if tier == "quick" else 50}


def run_one(ch, cfg):
    variant = c04.VARIANTS[ch.draw(len(c04.VARIANTS), "variant")]
    pseed = ch.draw(cfg["pseeds"], "policy-seed")
    cseed = ch.draw(cfg["cseeds"], "content-seed")
    d = c04.dry(variant, pseed, cseed)
    v1 = variant.startswith("v1.")
    errcode = -2 if v1 else -905
    viol = []
    if d["exc"] is not None or d["code"] not in (0, 1):
        return _res([("dry/failed:%s" % variant, "%r %r" % (d["rep"], d["exc"]))], None,
                    (variant, "dry"), False, {}, {})
    k = ch.slot(len(d["steps"]), "exchange-index")
    kind = KINDS[ch.draw(len(KINDS), "fault-kind")]
    step = d["steps"][k]
    if step[0] == "exit" and not kind.startswith("timeout"):
        kind = "timeout_after"
    nfollow = 1 + ch.draw(3, "follow-ups")
    script = SCRIPTS[ch.draw(len(SCRIPTS), "reconnect-script")]
    heal = ch.draw(2, "operator-heals") == 0
    slow = None
    pc = False
    if step[0] == "exit" and ch.draw(2, "slow-reboot") == 1:
        # no injected fault: after this EXIT the device simply stays off the bus for a while (longer
        # than the manager waits before re-opening) - a link failure as far as the request goes
        slow = ch.pick([1.5, 3.5, 30.0], "slow-reboot.delay")
        kind = "slow-reboot-%s" % slow
        key = "post_exit_signer" if step[1] in ("first", "only") else "post_exit_uihb"
        w, rep, exc, xch, req = c04.run_request(variant, pseed, fault=None, cseed=cseed,
                                                dcfg_override={key: {"delay": slow}})
        w.clock.advance(60.0)              # the follow-ups find the device back on the bus
    else:
        # one run in six: the manager found the device locked at start-up (and used its PIN), and after
        # the link failure the device is back power-cycled - locked in the bootloader again
        pc = ch.draw(6, "power-cycled-return") == 1 and variant != "uiHeartbeat"
        w, rep, exc, xch, req = c04.run_request(variant, pseed, fault=(k, kind), cseed=cseed,
                                                start_locked=pc)
    dev, link = w.device, w.link
    # in half of the runs the HID library is the one the repository documents for docker: it does not
    # notice a re-plug until hidapi_exit() resets it
    link.stale_enum = ch.draw(2, "hid-library-needs-reset") == 1
    fired = sum(link.stats.faults.values()) > 0 or slow is not None
    is_link_failure = not kind.startswith("timeout")
    # ---- faulted request
    if exc is not None:
        viol.append(("fault/manager-stopped:%s" % kind, "%s step %s %s -> %s: %s" % (
            variant, step, kind, type(exc).__name__, exc)))
    if slow is not None and exc is None and isinstance(rep, dict) and rep.get("errorcode") == 0:
        # a manager patient enough to find the device again completed the request: no link failure
        # as far as the client is concerned, nothing to repair
        is_link_failure = False
    elif not isinstance(rep, dict) or rep.get("errorcode") != errcode:
        viol.append(("fault/reply:%s" % kind, "%s step %s %s -> reply %r, expected errorcode %d" % (
            variant, step, kind, rep, errcode)))
    # ---- follow-ups
    mark_fault = len(link.transport)
    attempts_failed = 0
    follow_log = []
    reconnected = False
    stopped = exc is not None
    # the follow-up requests are of a drawn command: every handler has to repair the connection first
    pv = ch.pick(["v1.getPubKey", "v1.sign"] if v1 else
                 ["getPubKey", "sign.hash", "blockchainState", "blockchainParameters", "signerHeartbeat",
                  "sign.legacy"], "follow-up.command")
    probe, pexp, _pv1, _pd = c04.build_request(pv, pseed, cseed + 7)
    if pexp is not None and pexp.get("kind") == "sign":
        pexp["der"] = bytes.fromhex("3006020101020102")
    if script[0] == "bringup-timeout":
        nfollow = max(nfollow, 2)
    repaired = not is_link_failure        # a bring-up has completed since the link failure
    bt_pending = script[0] == "bringup-timeout" and is_link_failure
    for i in range(nfollow):
        if stopped:
            break
        if bt_pending:
            # first repair attempt: connection opens, bring-up exchange #j gets no answer
            bt_pending = False
            if dev.mode != L.MODE_SIGNER and dev.present():
                dev.mode = L.MODE_SIGNER
                dev._reset_ops()
            dev.plugged = True
            arm = {"at": link.index + script[1]}
            link.fault_fn = lambda idx, apdu: "timeout_before" if idx == arm["at"] else None
            m0 = len(link.transport)
            dev.expect = copy.deepcopy(pexp)
            rep2, exc2 = w.request(probe)
            link.fault_fn = None
            ev = link.transport[m0:]
            xs = [e for e in ev if e[0] == "xchg"]
            follow_log.append({"reply": rep2, "exc": type(exc2).__name__ if exc2 else None,
                               "transport": [e[0] if e[0] != "xchg" else "xchg:%02x" % e[2][1]
                                             for e in ev]})
            if exc2 is not None:
                viol.append(("reconnect/manager-stopped:bringup-timeout",
                             "%s %s at %s; silence at bring-up exchange %d of the repair -> %s: %s" % (
                                 variant, kind, step, script[1], type(exc2).__name__, exc2)))
                stopped = True
                continue
            if not isinstance(rep2, dict) or rep2.get("errorcode") != errcode:
                viol.append(("reconnect/reply:bringup-timeout",
                             "repair whose bring-up timed out answered %r" % (rep2,)))
            if [x[2][1] for x in xs] != BRINGUP[:script[1] + 1]:
                viol.append(("reconnect/bring-up-skipped",
                             "exchanges of the interrupted repair: %s" % [x[2].hex() for x in xs]))
            continue
        if dev.mode != L.MODE_SIGNER and heal and dev.present():
            dev.mode = L.MODE_SIGNER
            dev._reset_ops()
        fail_now = is_link_failure and not reconnected and script[0] in ("absent", "openfail") \
            and attempts_failed < script[1]
        if fail_now:
            if script[0] == "absent":
                dev.plugged = False
            else:
                link.open_fail = 1
        else:
            dev.plugged = True
        pc_now = pc and is_link_failure and not reconnected and not fail_now
        if pc_now:
            dev.mode = L.MODE_BOOTLOADER
            dev.pinbuf = bytearray(10)
            dev._reset_ops()
            unlocks0 = dev.unlocks
        m0 = len(link.transport)
        in_signer = dev.mode == L.MODE_SIGNER
        dev.expect = copy.deepcopy(pexp)
        rep2, exc2 = w.request(probe)
        ev = link.transport[m0:]
        if pc_now:
            # the repair goes through the whole bring-up, unlock included, and the request is served
            if exc2 is not None:
                viol.append(("reconnect/manager-stopped:power-cycled",
                             "%s %s at %s; device back locked in the bootloader -> %s: %s" % (
                                 variant, kind, step, type(exc2).__name__, exc2)))
                stopped = True
                continue
            if dev.unlocks != unlocks0 + 1 or dev.mode != L.MODE_SIGNER:
                viol.append(("reconnect/power-cycled-not-unlocked",
                             "unlock commands %d, device mode %r after the repair; reply %r" % (
                                 dev.unlocks - unlocks0, dev.mode, rep2)))
            elif not isinstance(rep2, dict) or rep2.get("errorcode") != 0:
                viol.append(("reconnect/no-recovery", "device unlocked again and in signer mode but the "
                             "follow-up answered %r" % (rep2,)))
        follow_log.append({"reply": rep2, "exc": type(exc2).__name__ if exc2 else None,
                           "transport": [e[0] if e[0] != "xchg" else "xchg:%02x" % e[2][1]
                                         for e in ev]})
        xs = [e for e in ev if e[0] == "xchg"]
        if is_link_failure and not reconnected:
            if fail_now:
                attempts_failed += 1
                link.open_fail = 0
                if exc2 is not None:
                    viol.append(("reconnect/manager-stopped:%s" % script[0],
                                 "%s %s at %s; reconnection attempt %d (%s) -> %s: %s" % (
                                     variant, kind, step, attempts_failed, script[0],
                                     type(exc2).__name__, exc2)))
                    stopped = True
                    continue
                if not isinstance(rep2, dict) or rep2.get("errorcode") != errcode:
                    viol.append(("reconnect/reply:%s" % script[0],
                                 "failed reconnection answered %r" % (rep2,)))
                if xs:
                    viol.append(("reconnect/apdu-without-connection",
                                 "APDUs %s sent although the connection could not be opened"
                                 % [x[2].hex() for x in xs]))
                if not any(e[0] in ("enumerate", "open_fail") for e in ev):
                    viol.append(("reconnect/not-retried", "no connection attempt in follow-up %d" % i))
                continue
            # reconnection is possible now: ordering oracle
            names = [e[0] for e in ev]
            first_x = names.index("xchg") if "xchg" in names else len(names)
            pre = names[:first_x]
            allpre = [e[0] for e in link.transport[mark_fault:m0]] + pre
            if "xchg" in names:
                if "close" not in allpre and slow is None:      # (slow reboot: closed within the request)
                    viol.append(("reconnect/no-close", "old handle not closed before %s" % (
                        xs[0][2].hex(),)))
                if "enumerate" not in pre or "open" not in pre or \
                        pre.index("open") < max(i2 for i2, n in enumerate(pre) if n == "enumerate") - 99:
                    viol.append(("reconnect/no-reopen", "events before first APDU: %s" % pre))
                got = [x[2][1] for x in xs[:4]]
                if in_signer and got != BRINGUP:
                    viol.append(("reconnect/bring-up-skipped",
                                 "first APDUs after the link failure: %s, expected bring-up %s" % (
                                     [x[2].hex() for x in xs[:5]], ["%02x" % b for b in BRINGUP])))
                if not in_signer and got[:1] != BRINGUP[:1]:
                    viol.append(("reconnect/bring-up-skipped",
                                 "first APDU after the link failure: %s" % xs[0][2].hex()))
                reconnected = True
            else:
                viol.append(("reconnect/not-attempted", "follow-up %d made no exchange: %s" % (i, names)))
            if in_signer:
                if exc2 is not None or not isinstance(rep2, dict) or rep2.get("errorcode") != 0:
                    viol.append(("reconnect/no-recovery",
                                 "link healthy and device in signer mode but follow-up answered %r (%s)"
                                 % (rep2, exc2)))
            elif exc2 is not None:
                stopped = True
        else:
            # after a time-out (or once repaired): a well-formed reply, and success in signer mode
            if exc2 is not None and in_signer:
                viol.append(("followup/manager-stopped", "%r %s" % (rep2, exc2)))
                stopped = True
            elif in_signer and (not isinstance(rep2, dict) or rep2.get("errorcode") != 0):
                viol.append(("followup/failed", "device in signer mode, follow-up answered %r" % (rep2,)))
            elif exc2 is not None:
                stopped = True
    state = (variant, step, kind, script, nfollow)
    return _res(viol, w, state, fired,
                {"script.%s%d" % script: 1, "fault." + kind: 1,
                 "reconnected": int(reconnected), "device_left_signer": int(dev.mode != L.MODE_SIGNER)},
                {"variant": variant, "step": list(step), "exchange_index": k, "fault": kind,
                 "reconnect_script": list(script), "faulted_reply": rep, "follow_ups": follow_log})


def _res(viol, w, state, nontrivial, probes, sample):
    return {"violations": viol, "digest": w.log.digest() if w else "-", "state": state,
            "nontrivial": nontrivial, "faults": dict(w.link.stats.faults) if w else {},
            "probes": probes, "sim_s": w.clock.elapsed if w else 0.0, "sample": sample}


ENUM_LABELS = ["variant", "policy-seed", "content-seed", "exchange-index", "fault-kind"]


class _Enum:
    """every (variant, policy seed, exchange index, fault kind); follow-ups seeded"""

    def __init__(self, tier):
        cfg = SIM_CFG(tier)
        self.items = []
        for vi, v in enumerate(c04.VARIANTS):
            for ps in range(min(cfg["pseeds"], 3 if tier == "quick" else 20)):
                n = len(c04.dry(v, ps)["steps"])
                for k in range(n):
                    for fk in range(len(KINDS)):
                        self.items.append([vi, ps, 0, k, fk])

    def __len__(self):
        return len(self.items)

    def __getitem__(self, i):
        return self.items[i]


_ENUM = {}


def ENUM(tier):
    if tier not in _ENUM:
        _ENUM[tier] = _Enum(tier)
    return _ENUM[tier]


def _m(owner_path, name, old, new, count=1):
    def apply():
        import importlib
        modname, _, clsname = owner_path.rpartition(".")
        try:
            owner = importlib.import_module(owner_path)
        except ImportError:
            owner = getattr(importlib.import_module(modname), clsname)
        return patch_function(owner, name, old, new, count)
    return apply


D = "ledger.hsm2dongle.HSM2Dongle"
P = "ledger.protocol.HSM2ProtocolLedger"
P1 = "ledger.protocol_v1.HSM1ProtocolLedger"
MUTANTS = {
    "no-disconnect-before-reconnect": _m(P, "ensure_connection", "self.hsm2dongle.disconnect()", "pass"),
    "reconnect-skips-bring-up": _m(P, "ensure_connection", "self.initialize_device()",
                                   "self.hsm2dongle.connect()"),
    "flag-cleared-when-link-reopens": _m(P, "ensure_connection", "self.hsm2dongle.disconnect()",
                                         "self.hsm2dongle.disconnect(); self._comm_issue = False"),
    "comm-issue-not-flagged-on-sign": _m(P, "_sign", "self._comm_issue = True", "pass", 2),
    "comm-issue-not-flagged-on-advance": _m(P, "_advance_blockchain", "self._comm_issue = True", "pass"),
    "reconnect-error-not-reflagged-on-pubkey": _m(
        P, "_get_pubkey", "self._comm_issue = True", "self._comm_issue = False"),
    "read-error-not-classified": _m(
        "ledger.hsm2dongle.HSM2DongleCommError", "is_comm_error",
        'exc.args[0] == "read error"', 'exc.args[0] == "read  error"'),
    "write-error-not-classified": _m(
        "ledger.hsm2dongle.HSM2DongleCommError", "is_comm_error",
        'exc.args[0] == "Error while writing"', 'exc.args[0] == "Error writing"'),
    "timeout-is-unknown-error-on-pubkey": _m(
        P, "_get_pubkey", "except HSM2DongleTimeoutError:", "except ZeroDivisionError:"),
    "v1-comm-issue-not-reported": _m(P1, "_sign", "self.protocol_v2.report_comm_issue()", "pass"),
    "v1-no-ensure-connection": _m(P1, "_get_pubkey", "self.protocol_v2.ensure_connection()", "pass"),
    "state-comm-error-is-unknown": _m(
        P, "_blockchain_state", "except HSM2DongleCommError:", "except ZeroDivisionError:"),
    "reconnect-failure-shuts-down": _m(
        P, "ensure_connection", "except HSM2ProtocolError as e:", "except ZeroDivisionError as e:"),
}

if __name__ == "__main__":
    import checks.c11 as _me
    batch.main(_me)
