# Table of claimed checks / not-applicable properties (exec'd by gen_manifest.py)
SIM = "deterministic simulation with fault injection: "

check("C01", "exploration",
      "Seeded search over sign requests x device chunk-request policies x protocol modes: the real "
      "JSON handler, protocol and APDU layers and ledgerblue HID framing run against a policy-driven "
      "Signer model that compares every chunk it receives with a reference encoding of the client's "
      "request; reply checked against what the device consumed and returned. Sampling, not proof: "
      "the space (requests x policies) is unbounded.",
      "Signer model written from firmware source (not executed); bitcoin.core is a declared stand-in; "
      "legacy tx serialisation only; blanking reference = OP_0 per non-final op + canonical final op.",
      SIM + "2-party protocol simulation with seeded peer policy, device-side reassembly oracle",
      "DESIGN.md 4/C01", "manager-world")

for _p in ["C02", "C03", "C04", "C05", "C06", "C07", "C08", "C09", "C10", "C11", "C12", "C13",
           "C15", "C17", "C18", "C19"]:
    NA[_p] = "check under construction in this session (designed in DESIGN.md section 4); not yet claimed"
NA["C14"] = ("pure function of the transaction bytes (no schedule, clock, fault, peer latitude or "
             "history), and the library it rests on (python-bitcoinlib) is absent from the sandbox; "
             "the one clause observable on a seam (bytes the device receives) is inside C01's oracle")
NA["C16"] = ("pure function of one JSON document: termination / round-trip of a parser has no "
             "schedule, clock, fault or multi-party aspect for a simulator to control")
