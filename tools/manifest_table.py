# Table of claimed checks / not-applicable properties (exec'd by gen_manifest.py)
SIM = "deterministic simulation with fault injection: "

check("C01", "exploration",
      "Seeded search over sign requests x device chunk-request policies x protocol modes: the real "
      "JSON handler, protocol and APDU layers and ledgerblue HID framing run against a policy-driven "
      "Signer model that compares every chunk it receives with a reference encoding of the client's "
      "request; reply checked against what the device consumed and returned. Sampling, not proof: "
      "the space (requests x policies) is unbounded.",
      "Signer model written from firmware source (not executed); bitcoin.core is a declared stand-in; "
      "legacy tx serialisation only; blanking reference = OP_0 per non-final op + canonical final op.",
      SIM + "2-party protocol simulation with seeded peer policy, device-side reassembly oracle",
      "DESIGN.md 4/C01", "manager-world")

check("C02", "exploration",
      "Seeded JSON values (well-formed requests of every command with 0..3 mutations: member deleted / "
      "retyped / boundary value / extra member / non-object) classified by the real manager in one of four "
      "manager states reached by injected faults (fresh, after a device error, reconnection pending after an "
      "injected read error, after a failed reconnection) and compared with a three-valued executable reading "
      "of docs/protocol.md and docs/protocol-v1.md: valid requests must reach the device, invalid ones must "
      "get a permitted code with no link activity at all (no APDU, no close/enumerate/open: a rejected request "
      "must not trigger the pending reconnection).",
      "Reference assumptions A1-A8 (DESIGN.md 4/C02); where the documents are silent the reference allows both "
      "outcomes; requests that crash the handler yield no verdict here (C03).",
      SIM + "refinement against an executable reading of the protocol documents across fault-reached manager states",
      "DESIGN.md 4/C02", "manager-world")

check("C03", "exploration",
      "Full-server simulation: the real TCPServer.run, socketserver loop, request handler and shutdown "
      "helper thread run as tasks under the seeded baton scheduler; histories of hostile request lines "
      "(arbitrary bytes, invalid UTF-8, deep nesting, huge integers, hostile JSON shapes, requests of "
      "every command with hostile / oversized field values, malformed blocks and brothers) arrive over "
      "simulated connections in fragments, half-closed, reset before the reply or two at once; after "
      "every line: exactly one JSON line with an integer errorcode came back, the manager is still "
      "serving, and a well-formed probe on a new connection is answered with 0 (bounded liveness).",
      "Benign record-only device; a client that never ends its line is outside the property; "
      "bitcoin.core is the stand-in; half of the runs log as the deployed manager does (records "
      "formatted, output discarded), the other half with logging off.",
      SIM + "full-server simulation under a seeded scheduler, hostile request histories, reply and liveness invariants",
      "DESIGN.md 4/C03", "manager-world")

check("C04", "fault_enumeration",
      "One outcome injected at one step of one command's device exchange: status word (quick: every "
      "status named in the firmware headers + range boundaries + seeded others; thorough: all 65 536 "
      "at every step kind), time-out before/after processing, write error, read error before/after, "
      "unexpected opcode. Reply checked against the documented code set, the success clauses, the "
      "mandatory code of named causes and 'an in-range status never stops the manager'. Exhaustive "
      "in the status-word dimension only (thorough tier), sampled over request contents and policies.",
      "Step kinds come from a fault-free dry run under a fixed request per command; mandatory codes "
      "are demanded only for causes the documentation names at steps where the firmware raises them; "
      "truncated answers are outside the property.",
      SIM + "fault enumeration at every exchange step against a reference table built from firmware headers and docs",
      "DESIGN.md 4/C04", "manager-world")

check("C05", "exploration",
      "Seeded search over advanceBlockchain / updateAncestorBlock requests (headers from an independent "
      "RLP encoder, coinbase transactions compressed with an independent SHA-256 core) x device policies "
      "(chunk sizes, per-header early/late termination, brothers asked or not, stop after k blocks, "
      "partial/total). The Signer model compares count, order, metadata, header bytes, brother count/order "
      "as they arrive; reply must be 0/1 exactly as the device reported.",
      "Device model implements op sequencing and chunk discipline from bc_advance.c / bc_ancestor.c, not "
      "block validation; headers are canonical RLP; brothers pairwise distinct.",
      SIM + "2-party protocol simulation with seeded peer policy, device-side reassembly oracle",
      "DESIGN.md 4/C05", "manager-world")

check("C06", "exploration",
      "Pipeline simulation: version-1 certificates are produced by the real gathering tools (adm_ledger "
      "onboard + attestation as tool processes) from a simulated genuine Ledger with per-run keys, then "
      "one fault is applied - a device answer altered on the link while gathering, a field altered at "
      "rest, signatures swapped, an element re-signed or re-parented, targets changed, a wrong / corrupted "
      "root - or the artefact comes from a dishonest issuer holding its keys (signed trees of depth 1..4, "
      "missing / wrong tweaks). The real loader and validate_and_get_values are compared target by target "
      "with an independent reference verifier (pure-Python curve arithmetic, own strict-DER parser, own "
      "tweak) on the same stored file.",
      "At its core a function of (certificate, root); the simulator owns only how the artefact comes to be "
      "(link and file system seams): element graphs that neither the tools, the fault operators nor the "
      "dishonest-issuer generator produce are not explored.",
      SIM + "pipeline simulation with link / at-rest faults, independent reference verifier",
      "DESIGN.md 4/C06", "admin-world")

check("C07", "exploration",
      "As C06 for version-2 certificates: produced by the real adm_sgx attestation from the quote envelope "
      "of a simulated enclave with a per-run Intel-like PKI (DER built by the harness); one fault on the "
      "link / at rest / in the root / dishonest issuer (incl. P-384 keys, broken report-data bindings, "
      "expired intermediate); and the verifier's virtual clock placed before, exactly at, and after every "
      "notBefore / notAfter, far past / future, non-overlapping windows. Real validator vs independent "
      "reference (own DER reader, validity, structure offsets) at the same simulated instant.",
      "Clock static during one validation; python-ecdsa shared with the code for P-256 arithmetic; for "
      "corrupted X.509 DER only the accepting direction is decided (library parse strictness differs).",
      SIM + "pipeline simulation with virtual clock vs X.509 validity, link / at-rest faults, reference verifier",
      "DESIGN.md 4/C07", "admin-world")

check("C08", "exploration",
      "The verify_attestation commands are run as tool processes on artefacts gathered by the real tools "
      "from Byzantine-but-correctly-signing devices (foreign headers, message one byte short / long, other "
      "keys hash / order, legacy vs current framing, UI message with another BTC key) with operator-side "
      "file mismatches (key replaced, path renamed, BTC path missing, empty / non-object file, invalid or "
      "compressed keys, target dropped) and root states (other, broken self-signature, expired under the "
      "virtual clock). Exit status and every printed value are compared with a reference decision written "
      "from docs/attestation.md offsets.",
      "Headers with an arbitrary character in place of the version dot are not generated; clock static "
      "during one verification.",
      SIM + "multi-process pipeline simulation with Byzantine signer and operator-file faults, reference decision",
      "DESIGN.md 4/C08", "admin-world")

check("C09", "fault_enumeration",
      "One bring-up of the real manager process (ManagerRunner.run with the real load_pin over the "
      "simulated file system, real TCPServer.run under the scheduler) per device configuration: platform "
      "x PIN file x onboarded x reported mode x UI/signer versions x retries x echo x unlock outcome x "
      "new-PIN outcome x mode after EXIT (incl. gone longer than the wait, virtual clock). Enumerated: "
      "the product of the enum dimensions (thorough: complete, quick: a fixed 1-in-8 slice) at version "
      "5.4.1; seeded: healthy-biased configurations over the version grid. Oracle: reference decision "
      "function written from the property text (unlock at most once and only when allowed; serving "
      "exactly when the reference says; otherwise the process ends without accepting a connection).",
      "Device models from firmware source; an invalid PIN file with a device already in signer mode is "
      "not judged; TCPSigner manager has no PIN.",
      SIM + "configuration enumeration + seeded search over real bring-up code, reference decision model",
      "DESIGN.md 4/C09", "manager-world")

check("C10", "fault_enumeration",
      "Histories of manager process lifetimes (real ManagerRunner.run, load_pin, FileBasedPin, "
      "_handle_bootloader, Ledger and SGX PIN commands) over a simulated file system and device that "
      "survive crashes. Enumerated for the single-lifetime change scenarios (+ power cycle + restart): "
      "every crash seam (I/O fence at every device-link, file-system, sleep and entropy call), every file "
      "operation x fault (EPERM/EIO/ENOSPC, short write, torn close, failed close, read error), every PIN "
      "exchange x link fault; seeded histories of up to 4 (thorough 6) lifetimes. Invariants: I1 file "
      "changes only after the device's acknowledgement and then holds that PIN, I2 refused / failed / "
      "aborted change leaves file and device untouched, I3 generated PINs satisfy the policy (entropy seam "
      "driven adversarially), I4 no serving after a change attempt, I5 a PIN from {file, default} opens the "
      "device at every quiescent point. Three root-caused known findings (I1/I5: crash, commit I/O error, "
      "lost acknowledgement) are matched by signature; anything else is a violation.",
      "Process-crash model (completed file-system effects survive; no fsync in the code under test, power "
      "loss outside the property); at most one fault per lifetime; the operator does not touch the PIN file.",
      SIM + "crash-point / file-system-fault / link-fault enumeration over process lifetimes with durability invariants",
      "DESIGN.md 4/C10", "manager-world")

check("C11", "fault_enumeration",
      "Link fault {write error, read error before/after the device acted, time-out before/after} at every "
      "exchange index of every command variant (enumerated per policy seed), then 1..3 follow-ups under a "
      "scripted reconnection {works, device absent j times, open fails j times}. Oracles: faulted request "
      "answered with the device-error code and no shutdown; after a link failure the transport log shows "
      "close, enumerate/open and the four bring-up APDUs before any command APDU; failed reconnections "
      "answer the device-error code, send nothing, and are retried; once healthy the next request succeeds.",
      "Ledger (HID) transport only, as anchored; no write/read error at the EXIT exchanges of uiHeartbeat; no "
      "second fault during the reconnection's own bring-up; request contents fixed per variant in quick tier.",
      SIM + "link-fault enumeration at every exchange index with scripted reconnection, transport-log ordering oracle",
      "DESIGN.md 4/C11", "manager-world")

check("C12", "exploration",
      "Seeded schedule search over the real server: comm.server.TCPServer.run and whatever socketserver "
      "class it instantiates run under the baton scheduler with 2..16 simulated clients (unique request "
      "contents, drawn connect instants, fragmented lines) and a device that answers after drawn latencies; "
      "the scheduler draws the running task at every yield point and the accept order. Oracle: in the "
      "device log tagged with the connection whose line the executing task last read, the APDUs of one "
      "request are contiguous; each client receives the reply derived from its own request; all clients "
      "are answered. The cyclic garbage collector is a seeded seam too (off during a run, invoked at drawn "
      "device exchanges; APDUs sent by a finalizer belong to nobody's request). Sampling of schedules, not "
      "enumeration.",
      "Pre-emption at seam granularity (socket operations, device exchanges, sleeps, thread start/join); a "
      "forking server is reported as unsupported (exit 2).",
      SIM + "seeded schedule search over real server code, per-request contiguity and own-reply oracles",
      "DESIGN.md 4/C12", "manager-world")

check("C13", "exploration",
      "Seeded device states queried through the real stack (getPubKey x6, blockchainState, "
      "blockchainParameters, signerHeartbeat) and one uiHeartbeat mode walk whose USB re-enumeration "
      "delays (virtual clock), post-exit modes and link-death kinds are drawn; every reply field compared "
      "with the datum the firmware-derived model holds; success of uiHeartbeat only with the device back "
      "in its starting mode. One known finding (known_findings.txt, DESIGN.md 9.4): after an answer that "
      "arrived later than the exchange time-out, replies carry an earlier request's data until the handle "
      "is re-opened.",
      "A heartbeat starting in UI-heartbeat mode is judged by 'ends where it started'; numbers compared "
      "as unsigned integers whatever their JSON form.",
      SIM + "2-party simulation with virtual clock and simulated USB re-enumeration, verbatim oracle",
      "DESIGN.md 4/C13", "manager-world")

check("C15", "exploration",
      "For a simulated genuine device the operator runs the whole tool pipeline as successive processes "
      "(Ledger: onboard with confirmation and replug, attestation, pubkeys, verify; SGX: attestation, "
      "pubkeys, verify). Fault-free class: every tool exits 0, written certificates load back to the same "
      "dictionary, verification prints exactly the device's values. Faulted class: one device answer "
      "altered at a drawn exchange, one stored field or the root of trust altered - then gathering or "
      "verification must fail, unless the reference verifiers show that no attested value changed.",
      "Device models are genuine by construction (BOLOS endorsement scheme two, DCAP-style envelope); "
      "alterations are single-point.",
      SIM + "multi-process pipeline simulation with single-point alterations on link, files and root",
      "DESIGN.md 4/C15", "admin-world")

check("C17", "exploration",
      "One authorisation life cycle per run: `signapp message`, then 0..6 signing steps by `signapp key` "
      "(authorisers, strangers, repeats), `signapp eth` (Ethereum-app model on the simulated link), `signapp "
      "manual` (valid and malformed DER), a save-load-save cycle, then `adm_ledger authorize_signer` as a tool "
      "process against a UI model that recomputes the digest from the firmware's construction and verifies "
      "each signature against n authorisers with the n/2+1 threshold and the strictly-newer iteration rule. "
      "Oracle: SIGVER carries hash | BE16(iteration), signatures are sent in file order up to the first "
      "success, exit status 0 exactly when the device authorised, tool-made signatures verify under their "
      "key for the reference digest, malformed iterations / DER / keys are refused and leave the file alone.",
      "The first sentence of the property (text and digest for every hash and iteration) is a pure function: "
      "covered only through interoperability with the firmware-derived device model at sampled and boundary "
      "iterations.",
      SIM + "tool pipeline + 2-party simulation against a verifying UI model",
      "DESIGN.md 4/C17", "admin-world")

check("C18", "fault_enumeration",
      "Every combination of platform {Ledger, SGX} x command {onboard, unlock, changepin, pubkeys} x device "
      "state {mode, onboarded, echo} x operator script {PIN kind, argv or typed after invalid attempts, "
      "--anypin, confirmation answers, --nounlock / --noexec} is run through the real adm_ledger.main / "
      "adm_sgx.main as a tool process against the simulated device, operator, entropy stream, file system "
      "and clock (complete enumeration of the enum product + seeded PIN strings). Oracle on the device's "
      "APDU log with the device state at each APDU: seed / PIN / wipe only under the onboarding "
      "preconditions and an explicit yes; seed = 32 bytes served by the entropy seam; unlock only to an "
      "onboarded device in bootloader mode; onboarding / change PINs policy-compliant unless --anypin; "
      "operation carried out when preconditions hold; public-key files hold the device's six keys.",
      "Release firmware behaviour (device refuses non-compliant PINs); 'carried out' demanded only for "
      "policy-compliant PINs; device models from firmware source.",
      SIM + "tool-process simulation with scripted operator, entropy and device-state enumeration",
      "DESIGN.md 4/C18", "admin-world")

check("C19", "exploration",
      "`signapp hash` and `signonetime` run as tool processes over the simulated file system and entropy "
      "stream on generated Intel-HEX images (1..8 areas across 64 KiB zones, gaps, out-of-order areas, record "
      "lengths 1..255, two writings per image). Oracle: reported hash = SHA-256 over the harness's own area "
      "list in address order for every writing; every .sig verifies (independent ecdsa) under the written "
      "public key for that hash; exactly the public-key file and one .sig per image are written; the run "
      "consumes entropy and two runs under different entropy streams yield different keys; the private "
      "scalar (recomputed from the recorded entropy) and raw entropy appear in no written byte or stdout.",
      "'Whatever the record sizes' is input sampling (writings drawn, not enumerated); secrecy of the scalar "
      "is checked when the tool's key matches the ecdsa package's derivation from the recorded entropy.",
      SIM + "tool-process simulation with entropy and file-system seams (freshness, secrecy, binding)",
      "DESIGN.md 4/C19", "admin-world")

for _p in ["C02", "C03", "C06", "C07", "C08", "C09", "C10", "C11", "C12", "C15", "C17", "C18",
           "C19"]:
    if _p in CHECKS:
        continue
    NA[_p] = "check under construction in this session (designed in DESIGN.md section 4); not yet claimed"
NA["C14"] = ("pure function of the transaction bytes (no schedule, clock, fault, peer latitude or "
             "history), and the library it rests on (python-bitcoinlib) is absent from the sandbox; "
             "the one clause observable on a seam (bytes the device receives) is inside C01's oracle")
NA["C16"] = ("pure function of one JSON document: termination / round-trip of a parser has no "
             "schedule, clock, fault or multi-party aspect for a simulator to control")
