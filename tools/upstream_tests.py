"""Runs the repository's own test modules that cannot be imported in the pinned
environment (python-bitcoinlib absent) against the bitcoin.core stand-in.
Informational: used to make sure `fix:` commits do not contradict upstream
expectations.  Usage: python -m tools.upstream_tests [pattern]"""
import sys
import unittest
from sim import boot

boot.boot()
import os
os.chdir(boot.MIDDLEWARE)
pattern = sys.argv[1] if len(sys.argv) > 1 else "test_*.py"
suite = unittest.defaultTestLoader.discover("tests", pattern=pattern, top_level_dir=boot.MIDDLEWARE)
res = unittest.TextTestRunner(verbosity=0).run(suite)
print("run=%d failures=%d errors=%d" % (res.testsRun, len(res.failures), len(res.errors)))
sys.exit(0 if res.wasSuccessful() else 1)
