"""Regenerates the seeded-changes table of DESIGN.md (section 9.6) from seeded/*/meta.json."""
import glob
import json
import os
import re

VERIF = os.path.dirname(os.path.dirname(os.path.abspath(__file__)))
SUMMARY = {}
try:
    SUMMARY = json.load(open(os.path.join(VERIF, "seeded", "summaries.json")))
except Exception:
    pass
rows = []
for m in sorted(glob.glob(os.path.join(VERIF, "seeded", "*", "meta.json"))):
    d = json.load(open(m))
    sid = d["id"]
    own = d["property"]
    caught = [c for c, r in d["checks"].items() if r.get("caught")]
    missed = [c for c, r in d["checks"].items() if r.get("exit") == 0]
    rows.append("| %s | %s | %s | %s | %s | %s |" % (
        sid, own, SUMMARY.get(sid, {}).get("change", ""), SUMMARY.get(sid, {}).get("needs", ""),
        ", ".join(caught) or "-", (", ".join(missed) or "-") + (
            "; " + SUMMARY[sid]["note"] if SUMMARY.get(sid, {}).get("note") else "")))
table = "\n".join([
    "| id | property | change | needs, to manifest | caught by (quick tier) | also run, not caught (not their property) / note |",
    "|---|---|---|---|---|---|"] + rows)
p = os.path.join(VERIF, "DESIGN.md")
s = open(p).read()
if "SEEDED-TABLE-PLACEHOLDER" in s:
    s = s.replace("SEEDED-TABLE-PLACEHOLDER", "<!-- seeded-table-begin -->\n" + table +
                  "\n<!-- seeded-table-end -->")
else:
    s = re.sub(r"<!-- seeded-table-begin -->.*?<!-- seeded-table-end -->",
               lambda m_: "<!-- seeded-table-begin -->\n" + table + "\n<!-- seeded-table-end -->", s,
               flags=re.S)
open(p, "w").write(s)
print("%d seeded changes in the table" % len(rows))
