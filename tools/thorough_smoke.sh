#!/bin/sh
# usage: [CHECKS="c06 c07"] tools/thorough_smoke.sh [wall seconds]
#   every (or the listed) check's thorough configuration for a short wall budget
wall=${1:-120}
checks=${CHECKS:-c01 c02 c03 c04 c05 c06 c07 c08 c09 c10 c11 c12 c13 c15 c17 c18 c19}
for c in $checks; do
  log=/tmp/thsmoke_$$_$c.log
  VERIF_SKIP_MUTANTS=1 /venv/bin/python -m checks.$c --tier thorough --wall $wall --no-evidence > $log 2>&1
  rc=$?
  echo "$c exit=$rc $(grep -E '^runs=' $log | cut -c1-90) $(grep -c '^VIOLATION' $log) violations"
  grep -E "^violation|HARNESS" $log | cut -c1-400
  rm -f $log
done
