#!/bin/sh
# usage: tools/thorough_smoke.sh [wall seconds]  - every check's thorough configuration for a short wall budget
wall=${1:-120}
for c in c01 c02 c03 c04 c05 c06 c07 c08 c09 c10 c11 c12 c13 c15 c17 c18 c19; do
  VERIF_SKIP_MUTANTS=1 /venv/bin/python -m checks.$c --tier thorough --wall $wall --no-evidence > /tmp/thsmoke_$c.log 2>&1
  rc=$?
  echo "$c exit=$rc $(grep -E '^runs=' /tmp/thsmoke_$c.log | cut -c1-90) $(grep -c '^VIOLATION' /tmp/thsmoke_$c.log) violations"
  grep -E "^violation sig|HARNESS" /tmp/thsmoke_$c.log | cut -c1-300
done
