import json,sys
props={json.loads(l)['id']:json.loads(l) for l in open('/verif/properties.jsonl')}
summ=json.load(open('/verif/seeded/summaries.json'))
def prompt(pid, wt, extra=""):
    p=props[pid]
    earlier=[ "- "+v['change'] for k,v in summ.items() if k.startswith(pid+'-')]
    txt=f"""You are working in a scratch git worktree of the open-source repository rsksmart/rsk-powhsm at {wt} (the Python middleware lives in {wt}/middleware). Work ONLY inside {wt}; do not read or write anything under /verif or /repo, and commit nothing.

The test suite is run with:
  cd {wt} && /venv/bin/python -m pytest -q -p no:cacheprovider --timeout=900 --continue-on-collection-errors
On the untouched tree it reports "468 passed, 25 errors" (the 25 are collection errors because python-bitcoinlib's `bitcoin.core` is not installed here; that is expected). There is no network.

Here is a semantic property that users of this code rely on:

  id: {pid}
  title: {p['title']}
  statement: {p['statement']}
  quantified over: {p['quantifier']['text']}
  anchored in: {', '.join(p['anchors']['files'])}

Your task: write ONE realistic change to the source under {wt}/middleware (not the tests) - the kind of regression a maintainer could plausibly introduce while refactoring, tidying, optimising or adding a feature, small and innocent-looking - that makes the property FALSE for some input, schedule, fault sequence or history, while the test suite still reports exactly "468 passed, 25 errors" with the same error list. Prefer a change that only manifests under a specific sequence, state, timing or fault, not one that breaks the common path.{extra} It must be a different mechanism from these earlier ones for the same property:
{chr(10).join(earlier) if earlier else '- (none)'}

Deliver, in {wt}/SEEDED/:
  - patch.diff : `git diff` of your change (paths relative to the repository root, applies with `git apply`)
  - demo.py    : a self-contained script, run as `/venv/bin/python SEEDED/demo.py` from the worktree root (it may add middleware/ to sys.path and stub `bitcoin.core` if it needs to), that drives the REAL code of the repository (fake only the device / USB / files / sockets) and exits 0 with a line "holds" on the untouched tree and exits 1, printing what went wrong, on the changed tree
  - notes.md   : what you changed, which clause of the property it breaks, exactly what it takes to manifest, and the commands you ran with their results
Leave the worktree with the patch applied. Verify everything yourself (suite result with the patch, demo on both trees - to get the untouched tree use `git apply -R SEEDED/patch.diff` and restore with `git apply SEEDED/patch.diff`; do NOT use `git stash` (the stash is shared with other worktrees)).

Final report (short, numbered): 1. the change; 2. the clause broken; 3. what it takes to manifest; 4. what you verified; 5. where the deliverables are."""
    open(f'/tmp/prompts/{wt.split("/")[-1]}.txt','w').write(txt)
rnd=sys.argv[1]
for pid in sys.argv[2:]:
    prompt(pid, f'/tmp/wt{rnd}_{pid}')
