"""MANIFEST.setup_cmd: offline, from files on disk only.
 1. the middleware imports with the bitcoin.core stand-in;
 2. stand-in fidelity: the repository's own tests/comm/test_bitcoin.py vectors
    (recorded peg-out transactions, hashes, sighashes, block headers) pass
    against the stand-in;
 3. determinism self-test on a small sample per engine (same seeds at 16
    and 1 workers and under another PYTHONHASHSEED must give identical run digests).
Exit 0 ok, 2 failure."""
import os
import subprocess
import sys
import unittest

from sim import boot


def fidelity():
    boot.boot()
    sys.path.insert(0, boot.MIDDLEWARE)
    import importlib.util
    path = os.path.join(boot.MIDDLEWARE, "tests", "comm", "test_bitcoin.py")
    spec = importlib.util.spec_from_file_location("verif_test_bitcoin", path)
    mod = importlib.util.module_from_spec(spec)
    spec.loader.exec_module(mod)
    suite = unittest.defaultTestLoader.loadTestsFromModule(mod)
    res = unittest.TextTestRunner(verbosity=0, stream=open(os.devnull, "w")).run(suite)
    print("stand-in fidelity: %d vectors run, %d failures, %d errors" % (
        res.testsRun, len(res.failures), len(res.errors)))
    for _, tb in res.failures + res.errors:
        print(tb)
    return res.wasSuccessful() and res.testsRun > 0


def digests(modname, runs, workers, hashseed):
    env = dict(os.environ)
    env["PYTHONHASHSEED"] = hashseed
    env["VERIF_NO_REEXEC"] = "1"
    env["VERIF_WORKERS"] = str(workers)
    env["VERIF_SEED"] = env.get("VERIF_SEED", "0")
    out = subprocess.run([sys.executable, "-m", modname, "--runs", str(runs), "--digests",
                          "--no-evidence", "--tier", "quick"], env=env, cwd=boot.VERIF_DIR,
                         capture_output=True, text=True, timeout=600)
    lines = sorted(l for l in out.stdout.splitlines() if l.startswith("DIGEST "))
    return lines, out


def determinism(mods, runs=64):
    ok = True
    for m in mods:
        a, oa = digests(m, runs, 16, "0")
        b, _ = digests(m, runs, 1, "0")
        c, _ = digests(m, runs, 5, "1")
        if not a:
            print("determinism %s: no digests produced\n%s\n%s" % (m, oa.stdout[-2000:], oa.stderr[-2000:]))
            ok = False
            continue
        same = (a == b == c)
        print("determinism %s: %d digests, 16w/1w/hashseed1 %s" % (
            m, len(a), "identical" if same else "DIFFER"))
        if not same:
            ok = False
            for x, y, z in zip(a, b, c):
                if not (x == y == z):
                    print("   ", x, "|", y, "|", z)
                    break
    return ok


def registered_checks():
    import json
    with open(os.path.join(boot.VERIF_DIR, "MANIFEST.json")) as f:
        man = json.load(f)
    return ["checks.%s" % c["property_id"].lower() for c in man["checks"]]


def main():
    boot.ensure_hashseed()
    boot.boot()
    ok = True
    try:
        import comm.server, ledger.protocol, ledger.protocol_v1, ledger.hsm2dongle  # noqa
        import sgx.hsm2dongle, admin.certificate, signapp, signonetime  # noqa
        print("imports: ok")
    except Exception as e:
        print("imports FAILED: %r" % (e,))
        ok = False
    ok = fidelity() and ok
    if os.environ.get("VERIF_SETUP_SKIP_DETERMINISM") != "1":
        ok = determinism(registered_checks()) and ok
    print("setup: %s" % ("ok" if ok else "FAILED"))
    sys.exit(0 if ok else 2)


if __name__ == "__main__":
    main()
