#!/usr/bin/env python3
"""Regenerates /verif/MANIFEST.json from the table below (kept in one place so
that the manifest is always schema-valid)."""
import json
import os

HERE = os.path.dirname(os.path.dirname(os.path.abspath(__file__)))
PY = "/venv/bin/python"

CHECKS = {}
NA = {}


def check(pid, category, text, note, technique, design_ref, engine):
    CHECKS[pid] = {
        "property_id": pid,
        "quick_cmd": "%s -m checks.%s --tier quick" % (PY, pid.lower()),
        "thorough_cmd": "%s -m checks.%s --tier thorough" % (PY, pid.lower()),
        "evidence_file": "/verif/evidence/%s.json" % pid,
        "replay_cmd_template": "%s -m checks.%s --replay {path}" % (PY, pid.lower()),
        "engine": engine,
        "level_claimed": {"category": category, "text": text, "design_ref": design_ref},
        "level_note": note,
        "technique": technique,
    }


exec(open(os.path.join(HERE, "tools", "manifest_table.py")).read())

doc = {
    "version": 1,
    "setup_cmd": "%s -m tools.setup" % PY,
    "hooks": {
        "guard": "RSK_POWHSM_VERIF",
        "enable": "no hooks in /repo: every seam is an existing module attribute replaced at "
                  "import time by the simulator (DESIGN.md 2.2); checks import /repo/middleware "
                  "from the working tree as it is",
        "baseline_off_cmd": "cd /repo && /venv/bin/python -m pytest -ra -q -p no:cacheprovider "
                            "--timeout=900 --continue-on-collection-errors",
        "source_commits": [],
        "add_only": True,
    },
    "engines": [
        {"name": "manager-world", "path": "/verif/sim",
         "serves_properties": [p for p, c in sorted(CHECKS.items()) if c["engine"] == "manager-world"],
         "kind_free_text": "deterministic simulator: real manager stack (JSON handler, protocol, "
                           "APDU layer, ledgerblue framing, socketserver) against simulated device, "
                           "USB/TCP link, clients, clock, file system; seeded choice sequence = replay unit"},
        {"name": "admin-world", "path": "/verif/sim",
         "serves_properties": [p for p, c in sorted(CHECKS.items()) if c["engine"] == "admin-world"],
         "kind_free_text": "same kernel running the admin tools as processes against simulated "
                           "devices (UI, Signer, SGX enclave, BOLOS), operator, entropy, clock and file system"},
    ],
    "checks": [CHECKS[k] for k in sorted(CHECKS)],
    "not_applicable": [{"property_id": k, "reason": v} for k, v in sorted(NA.items())],
    "notes": "Technique family: deterministic simulation with fault injection (seeded search over "
             "schedules, peer policies and fault sequences). Exit 2 = harness failure. See DESIGN.md.",
}
with open(os.path.join(HERE, "MANIFEST.json"), "w") as f:
    json.dump(doc, f, indent=1)
print("MANIFEST.json written: %d checks, %d not applicable" % (len(CHECKS), len(NA)))
