"""Imports a seeded breaking change produced by an independent sub-agent, confirms its
claims in the scratch worktree it was written in, runs the /verif checks against it and
writes /verif/seeded/<id>/{patch.diff,demo.py,notes.md,meta.json}.

usage: python -m tools.seeded_eval <id> <worktree> <property> [check ...]
The patch is applied to /repo only for the duration of the check runs and reverted
straight afterwards (git -C /repo checkout -- .)."""
import json
import os
import re
import shutil
import subprocess
import sys
import time

VERIF = os.path.dirname(os.path.dirname(os.path.abspath(__file__)))
PY = "/venv/bin/python"


def sh(cmd, cwd=None, timeout=1800):
    p = subprocess.run(cmd, shell=True, cwd=cwd, capture_output=True, text=True, timeout=timeout)
    return p.returncode, (p.stdout + p.stderr)


def recheck(sid):
    """Re-run the checks recorded for a kept seeded change (no scratch worktree needed)."""
    dst = os.path.join(VERIF, "seeded", sid)
    meta = json.load(open(os.path.join(dst, "meta.json")))
    checks = [c.lower() for c in meta["checks"]]
    meta["checks_before"] = meta["checks"]
    meta["checks"] = {}
    run_checks(sid, dst, checks, meta)
    meta.pop("checks_before", None)
    with open(os.path.join(dst, "meta.json"), "w") as f:
        json.dump(meta, f, indent=1)


def main():
    if sys.argv[1] == "--recheck":
        for sid in sys.argv[2:] or sorted(os.listdir(os.path.join(VERIF, "seeded"))):
            if os.path.isfile(os.path.join(VERIF, "seeded", sid, "meta.json")):
                recheck(sid)
        return
    sid, wt, prop = sys.argv[1:4]
    checks = [prop.lower()] + [c.lower() for c in sys.argv[4:] if c.lower() != prop.lower()]
    dst = os.path.join(VERIF, "seeded", sid)
    os.makedirs(dst, exist_ok=True)
    for f in ("patch.diff", "demo.py", "notes.md"):
        shutil.copy(os.path.join(wt, "SEEDED", f), os.path.join(dst, f))
    meta = {"id": sid, "property": prop, "source": "independent sub-agent given only the property text "
            "and a scratch worktree", "confirmed": {}, "checks": {}}
    # ---- confirm in the scratch worktree: reset, then apply the patch from the file
    sh("git checkout -- . && git clean -fdq -e SEEDED", cwd=wt)
    rc, out = sh("%s SEEDED/demo.py" % PY, cwd=os.path.join(wt, "middleware"))
    if rc != 0:
        rc, out = sh("%s %s/SEEDED/demo.py" % (PY, wt), cwd=os.path.join(wt, "middleware"))
    meta["confirmed"]["demo_without_patch_exit"] = rc
    rc, out = sh("git apply SEEDED/patch.diff", cwd=wt)
    meta["confirmed"]["patch_applies"] = rc == 0
    rc, out = sh("%s %s/SEEDED/demo.py" % (PY, wt), cwd=os.path.join(wt, "middleware"))
    meta["confirmed"]["demo_with_patch_exit"] = rc
    meta["confirmed"]["demo_with_patch_tail"] = out[-400:]
    rc, out = sh("%s -m pytest -q -p no:cacheprovider --timeout=900 --continue-on-collection-errors "
                 "2>&1 | tail -1" % PY, cwd=wt)
    meta["confirmed"]["suite_with_patch"] = out.strip()
    sh("%s -m compileall -q middleware > /dev/null" % PY, cwd=wt)
    ok = (meta["confirmed"]["demo_without_patch_exit"] == 0 and
          meta["confirmed"]["demo_with_patch_exit"] != 0 and
          "468 passed" in meta["confirmed"]["suite_with_patch"] and
          "25 errors" in meta["confirmed"]["suite_with_patch"])
    meta["confirmed"]["all_claims_hold"] = ok
    run_checks(sid, dst, checks, meta)
    with open(os.path.join(dst, "meta.json"), "w") as f:
        json.dump(meta, f, indent=1)
    print("claims hold: %s  -> %s" % (ok, os.path.join(dst, "meta.json")))


def run_checks(sid, dst, checks, meta):
    # ---- run the checks against /repo with the patch applied
    repo = os.environ.get("VERIF_REPO", "/repo")      # a snapshot when run through `vp run --with-repo`
    rc, out = sh("git -C %s status --porcelain" % repo)
    if out.strip():
        print("refusing: %s is not clean:\n" % repo + out)
        sys.exit(2)
    # patch.current.diff: the same change carried over by hand to the tree as it is after a later
    # fix: commit touched the lines it was written against (patch.diff stays as delivered)
    cur = os.path.join(dst, "patch.current.diff")
    rc, out = sh("git -C %s apply %s" % (repo, cur if os.path.isfile(cur) else os.path.join(dst, "patch.diff")))
    if rc != 0:
        # written against an earlier tree (a later fix: commit touched the same lines): merge it
        sh("git -C %s checkout -- ." % repo)
        rc, out2 = sh("git -C %s apply -3 %s" % (repo, os.path.join(dst, "patch.diff")))
        sh("git -C %s reset -q" % repo)
        if rc != 0 or "<<<<<<<" in sh("git -C %s diff" % repo)[1]:
            sh("git -C %s checkout -- ." % repo)
            print("%s: patch does not apply to %s any more (%s); earlier result kept" % (
                sid, repo, (out + out2).strip().splitlines()[0][:120]))
            meta["checks"] = dict(meta.get("checks_before") or {})
            meta["recheck_note"] = "patch conflicts with a later fix commit; result of the original evaluation kept"
            return
    try:
        for c in checks:
            t0 = time.time()
            env = "VERIF_SHRINK_S=8"
            rc, out = sh("%s %s -m checks.%s --tier quick --no-evidence" % (env, PY, c), cwd=VERIF,
                         timeout=3000)
            sigs = re.findall(r"^violation ([^\n]*)", out, flags=re.M)
            if rc == 1 and not re.search(r"^VIOLATION property=", out, flags=re.M):
                rc = 2        # died without reporting: a harness failure, not a catch
            meta["checks"][c.upper()] = {
                "exit": rc, "caught": rc == 1, "wall_s": round(time.time() - t0, 1),
                "violations": [s[:300] for s in sigs[:4]],
                "harness_error": out[-600:] if rc not in (0, 1) else None}
            print("%s on %s: exit %s (%s)" % (c.upper(), sid, rc, "CAUGHT" if rc == 1 else
                                              "missed" if rc == 0 else "HARNESS"))
            for s in sigs[:3]:
                print("    " + s[:200])
    finally:
        sh("git -C %s checkout -- ." % repo)


if __name__ == "__main__":
    main()
