#!/bin/sh
# usage: tools/sweep.sh <seed> [tier]   - runs every registered check once with VERIF_SEED=<seed>
seed=$1; tier=${2:-quick}
for c in c01 c02 c03 c04 c05 c06 c07 c08 c09 c10 c11 c12 c13 c15 c17 c18 c19; do
  VERIF_SEED=$seed /venv/bin/python -m checks.$c --tier $tier --no-evidence > /tmp/sweep_$c.$seed.log 2>&1
  rc=$?
  echo "$c seed=$seed exit=$rc $(grep -E '^runs=' /tmp/sweep_$c.$seed.log | cut -c1-60) $(grep -c '^VIOLATION' /tmp/sweep_$c.$seed.log) violations"
  grep -E "^violation sig|HARNESS" /tmp/sweep_$c.$seed.log | cut -c1-300
done
